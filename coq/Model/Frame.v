(* C04 -- window frames: from the arguments of the `window` transform to the frame clause of the
   emitted OVER (...), and what each side means.

   (1) `frame_of`         mirror of semantic/resolver/transforms.rs, "window": rows / range / rolling /
                          expanding -> (kind, start, end), or the compile error raised for a `rows` /
                          `range` argument that is an empty range other than the default spelling 0..-1
                          (/repo 7b31f75);
   (2) `emit_frame`       mirror of sql/gen_expr.rs translate_windowed + try_into_window_frame: the frame
                          clause that is emitted, `None` when it is elided (function without
                          window_frame=true, or frame equal to the code's default frame); bound signs
                          (a negative bound z is written |z| PRECEDING: unsigned_abs, /repo 222f71a);
   (3) `sql_frame_segment` SPECIFICATION of SQL: the rows a frame clause selects around row i of a sorted
                          partition, incl. the IMPLICIT default frame of an OVER without frame clause
                          (with ORDER BY: RANGE BETWEEN UNBOUNDED PRECEDING AND CURRENT ROW -- peers of the
                          current row included; without: the whole partition);
   (4) `prql_segment`     the documented meaning: Rel.v `seg`;
   (5) `scope_*`          mirror of the partition / frame bookkeeping of semantic/resolver/flatten.rs: which
                          partition and frame a column definition inside nested group / window bodies is
                          handed (/repo 592b6f8: leaving a nested body restores the enclosing ones).
   Executable definitions only; the theorems are in Proofs/FrameProofs.v, stated in Props/C04.v. *)
From Coq Require Import List ZArith NArith Bool.
From PV Require Import Lib.ListX Model.Rel Model.Window.
Import ListNotations.
Local Open Scope Z_scope.

(* ---------------------------------------------------------------- (1) the window transform *)
Inductive wkind := KRows | KRange.
Definition bounds := (option Z * option Z)%type.        (* None = open bound (omitted or `null`) *)
Definition frame3 := (wkind * option Z * option Z)%type.

(* arguments as written; `None` = argument not given (std.prql default) *)
Record wargs := mk_wargs { w_rows : option bounds; w_range : option bounds; w_expanding : option bool; w_rolling : option Z }.

(* defaults of `let window = func rows:0..-1 range:0..-1 expanding:false rolling:0` (semantic/std.prql;
   Gen/GenWindow.v carries what the file says now, Props/C04.v compares) *)
Definition default_rows : bounds := (Some 0, Some (-1)).
Definition default_range : bounds := (Some 0, Some (-1)).
Definition default_expanding : bool := false.
Definition default_rolling : Z := 0.

Definition range_is_empty (r : bounds) : bool :=
  match r with (Some s, Some e) => e <? s | _ => false end.

Definition oz_eqb (a b : option Z) : bool :=
  match a, b with None, None => true | Some x, Some y => x =? y | _, _ => false end.
Definition bounds_eqb (x y : bounds) : bool := oz_eqb (fst x) (fst y) && oz_eqb (snd x) (snd y).

(* the spelling that stands for "argument not given": the literal `(Some(0), Some(-1))` of transforms.rs
   (Gen/GenWindow.v carries what the file says now; Props/C04.v compares it with std.prql's defaults) *)
Definition not_given : bounds := (Some 0, Some (-1)).

(* `range_is_empty(r) && *r != (Some(0), Some(-1))`: an empty range that is not the "not given" spelling *)
Definition rejected_range (r : bounds) : bool := range_is_empty r && negb (bounds_eqb r not_given).

(* the if/else chain of the arm (unchanged by 7b31f75) *)
Definition frame_chain (rows range : bounds) (expanding : bool) (rolling : Z) : frame3 :=
  if expanding then (KRows, None, Some 0)
  else if 0 <? rolling then (KRows, Some (- rolling + 1), Some 0)
  else if negb (range_is_empty rows) then (KRows, fst rows, snd rows)
  else if negb (range_is_empty range) then (KRange, fst range, snd range)
  else (KRows, None, None).

(* result of the arm: a frame, or the error "window: `<arg>` is an empty range (its start is after its end)";
   the loop looks at `rows` first, and it runs before expanding / rolling are consulted *)
Inductive warg := ARows | ARange.
Inductive wresult := WFrame (f : frame3) | WEmptyRange (arg : warg).

Definition frame_of (a : wargs) : wresult :=
  let rows := match w_rows a with Some r => r | None => default_rows end in
  let range := match w_range a with Some r => r | None => default_range end in
  let expanding := match w_expanding a with Some b => b | None => default_expanding end in
  let rolling := match w_rolling a with Some n => n | None => default_rolling end in
  if rejected_range rows then WEmptyRange ARows
  else if rejected_range range then WEmptyRange ARange
  else WFrame (frame_chain rows range expanding rolling).

Definition no_args : wargs := mk_wargs None None None None.
Definition args_rows (a b : option Z) : wargs := mk_wargs (Some (a, b)) None None None.
Definition args_range (a b : option Z) : wargs := mk_wargs None (Some (a, b)) None None.
Definition args_rolling (n : Z) : wargs := mk_wargs None None None (Some n).
Definition args_expanding : wargs := mk_wargs None None (Some true) None.

(* the frame a transform outside any `window` carries (ir/generic.rs WindowFrame::default, flatten.rs) *)
Definition no_window : frame3 := (KRows, None, None).

(* ---------------------------------------------------------------- (2) the emitted frame clause *)
Inductive sbound := SPreceding (n : option Z) | SCurrentRow | SFollowing (n : option Z).   (* None = UNBOUNDED *)
Record sframe := mk_sframe { f_units : wkind; f_start : sbound; f_end : sbound }.

(* try_into_window_frame / parse_bound:  0 => CURRENT ROW, 1.. => n FOLLOWING, _ => |n| PRECEDING
   (`as_int.unsigned_abs()`: total on i64, where `-as_int` overflowed for i64::MIN) *)
Definition parse_bound (z : Z) : sbound :=
  if z =? 0 then SCurrentRow else if 1 <=? z then SFollowing (Some z) else SPreceding (Some (Z.abs z)).
Definition start_bound (b : option Z) : sbound := match b with Some z => parse_bound z | None => SPreceding None end.
Definition end_bound (b : option Z) : sbound := match b with Some z => parse_bound z | None => SFollowing None end.

(* translate_windowed: the frame the code treats as "default" and therefore omits *)
Definition default_frame (sorted : bool) : frame3 := if sorted then (KRange, None, Some 0) else (KRows, None, None).

Definition wkind_eqb (a b : wkind) : bool := match a, b with KRows, KRows | KRange, KRange => true | _, _ => false end.
Definition frame3_eqb (f g : frame3) : bool :=
  match f, g with (k, a, b), (k', a', b') => wkind_eqb k k' && oz_eqb a a' && oz_eqb b b' end.

Definition wresult_eqb (r s : wresult) : bool :=
  match r, s with
  | WFrame f, WFrame g => frame3_eqb f g
  | WEmptyRange ARows, WEmptyRange ARows | WEmptyRange ARange, WEmptyRange ARange => true
  | _, _ => false
  end.

Definition to_sframe (f : frame3) : sframe :=
  match f with (k, a, b) => mk_sframe k (start_bound a) (end_bound b) end.

(* supports = the std.sql function carries window_frame=true *)
Definition emit_frame (supports sorted : bool) (f : frame3) : option sframe :=
  if supports && negb (frame3_eqb f (default_frame sorted)) then Some (to_sframe f) else None.

(* is a bound a numeric offset (neither open nor 0)? *)
Definition is_offset (b : option Z) : bool := match b with Some z => negb (z =? 0) | None => false end.
Definition offset_free (f : frame3) : bool := match f with (_, a, b) => negb (is_offset a) && negb (is_offset b) end.

(* translate_windowed (/repo 91a6a23): a RANGE frame with a numeric offset over a number of sort keys other than one is
   the compile error "window: a `range` with an offset needs exactly one sort key" -- for a function that takes a frame
   clause at all; the check stands in front of the elision *)
Definition range_offset_rejected (supports : bool) (nkeys : nat) (f : frame3) : bool :=
  match f with (k, a, b) => supports && wkind_eqb k KRange && negb (Nat.eqb nkeys 1) && (is_offset a || is_offset b) end.
(* None = rejected; Some c = the OVER (...) is emitted with frame clause c (None inside = elided) *)
Definition emit_window (supports : bool) (nkeys : nat) (f : frame3) : option (option sframe) :=
  if range_offset_rejected supports nkeys f then None else Some (emit_frame supports (negb (Nat.eqb nkeys 0)) f).

(* text, as sqlparser displays it *)
Fixpoint show_pos_fuel (fuel : nat) (n : Z) (acc : str) : str :=
  match fuel with
  | O => acc
  | S f => let acc' := N.of_nat (48 + Z.to_nat (n mod 10)) :: acc in
           if n / 10 =? 0 then acc' else show_pos_fuel f (n / 10) acc'
  end.
Definition show_z (z : Z) : str := if z <? 0 then 45%N :: show_pos_fuel 30 (- z) [] else show_pos_fuel 30 z [].

Definition s_unbounded : str := [85;78;66;79;85;78;68;69;68]%N.                          (* UNBOUNDED *)
Definition s_preceding : str := [32;80;82;69;67;69;68;73;78;71]%N.                       (* " PRECEDING" *)
Definition s_following : str := [32;70;79;76;76;79;87;73;78;71]%N.                       (* " FOLLOWING" *)
Definition s_current_row : str := [67;85;82;82;69;78;84;32;82;79;87]%N.                  (* CURRENT ROW *)
Definition s_rows : str := [82;79;87;83]%N.
Definition s_range : str := [82;65;78;71;69]%N.
Definition s_between : str := [32;66;69;84;87;69;69;78;32]%N.                            (* " BETWEEN " *)
Definition s_and : str := [32;65;78;68;32]%N.                                            (* " AND " *)

Definition show_bound (b : sbound) : str :=
  match b with
  | SPreceding None => s_unbounded ++ s_preceding
  | SPreceding (Some n) => show_z n ++ s_preceding
  | SCurrentRow => s_current_row
  | SFollowing None => s_unbounded ++ s_following
  | SFollowing (Some n) => show_z n ++ s_following
  end.
Definition show_frame (f : option sframe) : str :=
  match f with
  | None => []
  | Some f => (match f_units f with KRows => s_rows | KRange => s_range end) ++ s_between ++ show_bound (f_start f) ++ s_and ++ show_bound (f_end f)
  end.

(* ---------------------------------------------------------------- (3) what SQL means by a frame *)
(* frames the SQL grammar/semantics accept: the start is not UNBOUNDED FOLLOWING, the end is not
   UNBOUNDED PRECEDING, offsets are non-negative, and the start bound's class does not come after the end's *)
Definition bound_ok (b : sbound) : bool :=
  match b with SPreceding (Some n) | SFollowing (Some n) => 0 <=? n | _ => true end.
Definition bound_class (b : sbound) : Z := match b with SPreceding _ => 0 | SCurrentRow => 1 | SFollowing _ => 2 end.
Definition sframe_ok (f : sframe) : bool :=
  bound_ok (f_start f) && bound_ok (f_end f)
  && (match f_start f with SFollowing None => false | _ => true end)
  && (match f_end f with SPreceding None => false | _ => true end)
  && (bound_class (f_start f) <=? bound_class (f_end f)).

(* ROWS: positions relative to i *)
Definition rows_from (i j : Z) (s : sbound) : bool :=
  match s with
  | SPreceding None => true
  | SPreceding (Some k) => i - k <=? j
  | SCurrentRow => i <=? j
  | SFollowing (Some k) => i + k <=? j
  | SFollowing None => false
  end.
Definition rows_to (i j : Z) (e : sbound) : bool :=
  match e with
  | SFollowing None => true
  | SFollowing (Some k) => j <=? i + k
  | SCurrentRow => j <=? i
  | SPreceding (Some k) => j <=? i - k
  | SPreceding None => false
  end.

(* RANGE: CURRENT ROW means "the peers of the current row" (rows equal under ALL the ORDER BY keys; with no ORDER BY
   every row is a peer of every row); numeric offsets need exactly one ORDER BY key with integer values -- otherwise
   the engines reject the query (`sql_accepts` below; here: selects nothing) -- and are measured ALONG the order:
   with a DESC key `d PRECEDING` is the key value k + d *)
Definition key_int (keys : list (bool * expr)) (r : row) : option (bool * Z) :=
  match keys with
  | [(desc, ke)] => match ev r ke with VInt z => Some (desc, z) | _ => None end
  | _ => None
  end.
Definition range_from (keys : list (bool * expr)) (me r : row) (s : sbound) : bool :=
  match s with
  | SPreceding None => true
  | SCurrentRow => keys_le keys me r
  | SPreceding (Some d) => match key_int keys me, key_int keys r with
                           | Some (desc, k), Some (_, x) => if desc then x <=? k + d else k - d <=? x | _, _ => false end
  | SFollowing (Some d) => match key_int keys me, key_int keys r with
                           | Some (desc, k), Some (_, x) => if desc then x <=? k - d else k + d <=? x | _, _ => false end
  | SFollowing None => false
  end.
Definition range_to (keys : list (bool * expr)) (me r : row) (e : sbound) : bool :=
  match e with
  | SFollowing None => true
  | SCurrentRow => keys_le keys r me
  | SFollowing (Some d) => match key_int keys me, key_int keys r with
                           | Some (desc, k), Some (_, x) => if desc then k - d <=? x else x <=? k + d | _, _ => false end
  | SPreceding (Some d) => match key_int keys me, key_int keys r with
                           | Some (desc, k), Some (_, x) => if desc then k + d <=? x else x <=? k - d | _, _ => false end
  | SPreceding None => false
  end.

(* SPECIFICATION of what the engines accept (validated on SQLite by the range-x stream; PostgreSQL and the SQL standard
   say the same): a RANGE frame with a numeric offset needs exactly one ORDER BY expression *)
Definition has_offset (b : sbound) : bool := match b with SPreceding (Some _) | SFollowing (Some _) => true | _ => false end.
Definition sql_accepts (f : sframe) (n_order_by : nat) : bool :=
  sframe_ok f && (match f_units f with
                  | KRange => negb (has_offset (f_start f) || has_offset (f_end f)) || Nat.eqb n_order_by 1
                  | KRows => true end).

(* the frame an OVER (...) WITHOUT frame clause has *)
Definition sql_implicit_frame (sorted : bool) : sframe :=
  if sorted then mk_sframe KRange (SPreceding None) SCurrentRow
  else mk_sframe KRows (SPreceding None) (SFollowing None).

Definition is_sorted (keys : list (bool * expr)) : bool := match keys with [] => false | _ => true end.

Definition explicit_segment (f : sframe) (keys : list (bool * expr)) (p : rel) (i : nat) : list nat :=
  match f_units f with
  | KRows => filter (fun j => rows_from (Z.of_nat i) (Z.of_nat j) (f_start f) && rows_to (Z.of_nat i) (Z.of_nat j) (f_end f)) (seq 0 (length p))
  | KRange =>
      match nth_error p i with
      | Some me => filter (fun j => match nth_error p j with
                                    | Some r => range_from keys me r (f_start f) && range_to keys me r (f_end f)
                                    | None => false end) (seq 0 (length p))
      | None => []
      end
  end.

(* positions (of the partition p, sorted by keys) a window function at row i sees *)
Definition sql_frame_segment (f : option sframe) (keys : list (bool * expr)) (p : rel) (i : nat) : list nat :=
  explicit_segment (match f with Some f => f | None => sql_implicit_frame (is_sorted keys) end) keys p i.

(* ---------------------------------------------------------------- (4) the documented meaning *)
Definition rel_frame (f : frame3) : frame :=
  match f with (KRows, a, b) => FRows a b | (KRange, a, b) => FRange a b end.
Definition prql_segment (f : frame3) (keys : list (bool * expr)) (p : rel) (i : nat) : list nat := seg (rel_frame f) keys p i.

(* the documented meaning of range frames beyond Rel.v's domain: Model/Window.v segx *)
Definition prql_segmentx (f : frame3) (keys : list (bool * expr)) (p : rel) (i : nat) : list nat := segx (rel_frame f) keys p i.
(* domain of the generalised reading: no offsets, or one key (either direction) that is an integer on every row *)
Definition one_int_key (keys : list (bool * expr)) (p : rel) : Prop :=
  exists desc ke, keys = [(desc, ke)] /\ forall r, In r p -> exists z, ev r ke = VInt z.
Definition range_domain (f : frame3) (keys : list (bool * expr)) (p : rel) : Prop := offset_free f = true \/ one_int_key keys p.

(* domain of range frames in the reference semantics: one ascending key, integer on every row *)
Definition range_key_ok (keys : list (bool * expr)) (p : rel) : Prop :=
  exists ke, keys = [(false, ke)] /\ forall r, In r p -> exists z, ev r ke = VInt z.
Definition range_key_okb (keys : list (bool * expr)) (p : rel) : bool :=
  match keys with
  | [(false, ke)] => forallb (fun r => match ev r ke with VInt _ => true | _ => false end) p
  | _ => false
  end.

(* the class of the known finding F22: a function that is never given a frame clause, asked for a frame
   that is not the one SQL assumes *)
Definition known_f22 (supports sorted : bool) (f : frame3) : bool := negb supports && negb (frame3_eqb f (default_frame sorted)).

(* decidable equality of emitted clauses (for the table obligations over Gen/GenWindow.v) *)
Definition sbound_eqb (a b : sbound) : bool :=
  match a, b with
  | SPreceding x, SPreceding y | SFollowing x, SFollowing y => oz_eqb x y
  | SCurrentRow, SCurrentRow => true
  | _, _ => false
  end.
Definition sframe_eqb (f g : sframe) : bool :=
  wkind_eqb (f_units f) (f_units g) && sbound_eqb (f_start f) (f_start g) && sbound_eqb (f_end f) (f_end g).
Definition osframe_eqb (f g : option sframe) : bool :=
  match f, g with None, None => true | Some x, Some y => sframe_eqb x y | _, _ => false end.
(* finite domains the generated code is compared on *)
Definition small_bounds : list (option Z) := [None; Some (-3); Some (-2); Some (-1); Some 0; Some 1; Some 2; Some 3].
Definition small_ranges : list bounds := flat_map (fun a => map (fun b => (a, b)) small_bounds) small_bounds.
Definition small_frames : list frame3 := flat_map (fun k => map (fun r : bounds => (k, fst r, snd r)) small_ranges) [KRows; KRange].
Definition small_rollings : list Z := [-2; -1; 0; 1; 2; 3; 4].

(* for the correspondence check: (kind, start, end) as plain data, and the clause text *)
Definition kind_code (k : wkind) : N := match k with KRows => 0%N | KRange => 1%N end.
Definition oz_list (o : option Z) : list Z := match o with Some z => [z] | None => [] end.
Definition frame3_data (f : frame3) : N * list Z * list Z := match f with (k, a, b) => (kind_code k, oz_list a, oz_list b) end.
(* result of the `window` arm as plain data: (0, frame) | (1 = `rows` rejected / 2 = `range` rejected, dummy) *)
Definition wresult_data (r : wresult) : N * (N * list Z * list Z) :=
  match r with
  | WFrame f => (0%N, frame3_data f)
  | WEmptyRange ARows => (1%N, (0%N, [], []))
  | WEmptyRange ARange => (2%N, (0%N, [], []))
  end.
(* the frame of a result; a rejected program has none (the callers compare `wresult_data` first) *)
Definition wresult_frame (r : wresult) : frame3 := match r with WFrame f => f | WEmptyRange _ => no_window end.

(* ---------------------------------------------------------------- (5) partition / frame scoping (flatten.rs) *)
(* A pipeline as the Flattener sees it, reduced to what decides the partition and frame a column definition
   is handed: column definitions (tagged), group bodies, window bodies, and the relational argument of
   join / append / loop.  Group keys are opaque tokens. *)
Inductive sitem :=
| SCol (tag : N)
| SGroup (by_ : N) (body : list sitem)
| SWindow (f : frame3) (body : list sitem)
| SSub (body : list sitem).

Definition scope_out := (N * option N * frame3)%type.          (* tag, partition, frame *)

(* what the code does with its `partition` / `window` fields when it leaves a body *)
Inductive exit_policy := ExitRestore | ExitReset.
Record scope_policy := mk_scope_policy {
  p_group_exit : exit_policy;          (* Group: `self.partition = outer_partition` vs `= None` *)
  p_window_exit : exit_policy;         (* Window: `self.window = outer_window` vs `= WindowFrame::default()` *)
  p_sub_isolates_partition : bool;     (* join/append/loop argument: partition taken away and put back *)
  p_sub_isolates_window : bool }.      (* ... window frame taken away and put back *)

(* flatten.rs at /repo HEAD (592b6f8) *)
Definition flatten_policy : scope_policy := mk_scope_policy ExitRestore ExitRestore true true.
(* ... and before 592b6f8, for the non-vacuity examples *)
Definition old_flatten_policy : scope_policy := mk_scope_policy ExitReset ExitReset false false.

Definition exit_policy_eqb (a b : exit_policy) : bool :=
  match a, b with ExitRestore, ExitRestore | ExitReset, ExitReset => true | _, _ => false end.
Definition scope_policy_eqb (a b : scope_policy) : bool :=
  exit_policy_eqb (p_group_exit a) (p_group_exit b) && exit_policy_eqb (p_window_exit a) (p_window_exit b)
  && Bool.eqb (p_sub_isolates_partition a) (p_sub_isolates_partition b) && Bool.eqb (p_sub_isolates_window a) (p_sub_isolates_window b).

Record fstate := mk_fstate { st_part : option N; st_win : frame3 }.
Definition fstate0 : fstate := mk_fstate None no_window.        (* Flattener::default() *)

(* the imperative walk: state in, (outputs, state) out -- the fields are saved / overwritten / written back as
   the code does *)
Fixpoint scope_run_item (pol : scope_policy) (i : sitem) (st : fstate) {struct i} : list scope_out * fstate :=
  let run_list := fix run_list (l : list sitem) (st : fstate) {struct l} : list scope_out * fstate :=
    match l with
    | [] => ([], st)
    | x :: t => let (o1, st1) := scope_run_item pol x st in let (o2, st2) := run_list t st1 in (o1 ++ o2, st2)
    end in
  match i with
  | SCol t => ([(t, st_part st, st_win st)], st)
  | SGroup by_ body =>
      let outer := st_part st in
      let (o, st') := run_list body (mk_fstate (Some by_) (st_win st)) in
      (o, mk_fstate (match p_group_exit pol with ExitRestore => outer | ExitReset => None end) (st_win st'))
  | SWindow f body =>
      let outer := st_win st in
      let (o, st') := run_list body (mk_fstate (st_part st) f) in
      (o, mk_fstate (st_part st') (match p_window_exit pol with ExitRestore => outer | ExitReset => no_window end))
  | SSub body =>
      let (o, st') := run_list body (mk_fstate (if p_sub_isolates_partition pol then None else st_part st)
                                               (if p_sub_isolates_window pol then no_window else st_win st)) in
      (o, mk_fstate (if p_sub_isolates_partition pol then st_part st else st_part st')
                    (if p_sub_isolates_window pol then st_win st else st_win st'))
  end.
Fixpoint scope_run (pol : scope_policy) (l : list sitem) (st : fstate) : list scope_out * fstate :=
  match l with
  | [] => ([], st)
  | x :: t => let (o1, st1) := scope_run_item pol x st in let (o2, st2) := scope_run pol t st1 in (o1 ++ o2, st2)
  end.

(* the documented meaning: lexical scoping -- a column definition is evaluated per group of the innermost
   enclosing `group`, over the segment of the innermost enclosing `window`; a relational argument is a pipeline
   of its own *)
Fixpoint scope_spec_item (part : option N) (fr : frame3) (i : sitem) {struct i} : list scope_out :=
  match i with
  | SCol t => [(t, part, fr)]
  | SGroup by_ body => flat_map (scope_spec_item (Some by_) fr) body
  | SWindow f body => flat_map (scope_spec_item part f) body
  | SSub body => flat_map (scope_spec_item None no_window) body
  end.
Definition scope_spec (part : option N) (fr : frame3) (l : list sitem) : list scope_out := flat_map (scope_spec_item part fr) l.

(* plain data for the correspondence stream *)
Definition scope_out_data (o : scope_out) : N * list N * (N * list Z * list Z) :=
  match o with (t, p, f) => (t, match p with Some b => [b] | None => [] end, frame3_data f) end.

(* C04 -- window frames: from the arguments of the `window` transform to the frame clause of the
   emitted OVER (...), and what each side means.

   (1) `frame_of`         mirror of semantic/resolver/transforms.rs, "window": rows / range / rolling /
                          expanding -> (kind, start, end), incl. the empty-range defaulting;
   (2) `emit_frame`       mirror of sql/gen_expr.rs translate_windowed + try_into_window_frame: the frame
                          clause that is emitted, `None` when it is elided (function without
                          window_frame=true, or frame equal to the code's default frame); bound signs;
   (3) `sql_frame_segment` SPECIFICATION of SQL: the rows a frame clause selects around row i of a sorted
                          partition, incl. the IMPLICIT default frame of an OVER without frame clause
                          (with ORDER BY: RANGE BETWEEN UNBOUNDED PRECEDING AND CURRENT ROW -- peers of the
                          current row included; without: the whole partition);
   (4) `prql_segment`     the documented meaning: Rel.v `seg`.
   Executable definitions only; the theorems are in Proofs/FrameProofs.v, stated in Props/C04.v. *)
From Coq Require Import List ZArith NArith Bool.
From PV Require Import Lib.ListX Model.Rel.
Import ListNotations.
Local Open Scope Z_scope.

(* ---------------------------------------------------------------- (1) the window transform *)
Inductive wkind := KRows | KRange.
Definition bounds := (option Z * option Z)%type.        (* None = open bound (omitted or `null`) *)
Definition frame3 := (wkind * option Z * option Z)%type.

(* arguments as written; `None` = argument not given (std.prql default) *)
Record wargs := mk_wargs { w_rows : option bounds; w_range : option bounds; w_expanding : option bool; w_rolling : option Z }.

(* defaults of `let window = func rows:0..-1 range:0..-1 expanding:false rolling:0` (semantic/std.prql;
   Gen/GenWindow.v carries what the file says now, Props/C04.v compares) *)
Definition default_rows : bounds := (Some 0, Some (-1)).
Definition default_range : bounds := (Some 0, Some (-1)).
Definition default_expanding : bool := false.
Definition default_rolling : Z := 0.

Definition range_is_empty (r : bounds) : bool :=
  match r with (Some s, Some e) => e <? s | _ => false end.

Definition frame_of (a : wargs) : frame3 :=
  let rows := match w_rows a with Some r => r | None => default_rows end in
  let range := match w_range a with Some r => r | None => default_range end in
  let expanding := match w_expanding a with Some b => b | None => default_expanding end in
  let rolling := match w_rolling a with Some n => n | None => default_rolling end in
  if expanding then (KRows, None, Some 0)
  else if 0 <? rolling then (KRows, Some (- rolling + 1), Some 0)
  else if negb (range_is_empty rows) then (KRows, fst rows, snd rows)
  else if negb (range_is_empty range) then (KRange, fst range, snd range)
  else (KRows, None, None).

Definition no_args : wargs := mk_wargs None None None None.
Definition args_rows (a b : option Z) : wargs := mk_wargs (Some (a, b)) None None None.
Definition args_range (a b : option Z) : wargs := mk_wargs None (Some (a, b)) None None.
Definition args_rolling (n : Z) : wargs := mk_wargs None None None (Some n).
Definition args_expanding : wargs := mk_wargs None None (Some true) None.

(* the frame a transform outside any `window` carries (ir/generic.rs WindowFrame::default, flatten.rs) *)
Definition no_window : frame3 := (KRows, None, None).

(* ---------------------------------------------------------------- (2) the emitted frame clause *)
Inductive sbound := SPreceding (n : option Z) | SCurrentRow | SFollowing (n : option Z).   (* None = UNBOUNDED *)
Record sframe := mk_sframe { f_units : wkind; f_start : sbound; f_end : sbound }.

(* try_into_window_frame / parse_bound:  0 => CURRENT ROW, 1.. => n FOLLOWING, _ => (-n) PRECEDING *)
Definition parse_bound (z : Z) : sbound :=
  if z =? 0 then SCurrentRow else if 1 <=? z then SFollowing (Some z) else SPreceding (Some (- z)).
Definition start_bound (b : option Z) : sbound := match b with Some z => parse_bound z | None => SPreceding None end.
Definition end_bound (b : option Z) : sbound := match b with Some z => parse_bound z | None => SFollowing None end.

(* translate_windowed: the frame the code treats as "default" and therefore omits *)
Definition default_frame (sorted : bool) : frame3 := if sorted then (KRange, None, Some 0) else (KRows, None, None).

Definition oz_eqb (a b : option Z) : bool :=
  match a, b with None, None => true | Some x, Some y => x =? y | _, _ => false end.
Definition wkind_eqb (a b : wkind) : bool := match a, b with KRows, KRows | KRange, KRange => true | _, _ => false end.
Definition frame3_eqb (f g : frame3) : bool :=
  match f, g with (k, a, b), (k', a', b') => wkind_eqb k k' && oz_eqb a a' && oz_eqb b b' end.

Definition to_sframe (f : frame3) : sframe :=
  match f with (k, a, b) => mk_sframe k (start_bound a) (end_bound b) end.

(* supports = the std.sql function carries window_frame=true *)
Definition emit_frame (supports sorted : bool) (f : frame3) : option sframe :=
  if supports && negb (frame3_eqb f (default_frame sorted)) then Some (to_sframe f) else None.

(* text, as sqlparser displays it *)
Fixpoint show_pos_fuel (fuel : nat) (n : Z) (acc : str) : str :=
  match fuel with
  | O => acc
  | S f => let acc' := N.of_nat (48 + Z.to_nat (n mod 10)) :: acc in
           if n / 10 =? 0 then acc' else show_pos_fuel f (n / 10) acc'
  end.
Definition show_z (z : Z) : str := if z <? 0 then 45%N :: show_pos_fuel 30 (- z) [] else show_pos_fuel 30 z [].

Definition s_unbounded : str := [85;78;66;79;85;78;68;69;68]%N.                          (* UNBOUNDED *)
Definition s_preceding : str := [32;80;82;69;67;69;68;73;78;71]%N.                       (* " PRECEDING" *)
Definition s_following : str := [32;70;79;76;76;79;87;73;78;71]%N.                       (* " FOLLOWING" *)
Definition s_current_row : str := [67;85;82;82;69;78;84;32;82;79;87]%N.                  (* CURRENT ROW *)
Definition s_rows : str := [82;79;87;83]%N.
Definition s_range : str := [82;65;78;71;69]%N.
Definition s_between : str := [32;66;69;84;87;69;69;78;32]%N.                            (* " BETWEEN " *)
Definition s_and : str := [32;65;78;68;32]%N.                                            (* " AND " *)

Definition show_bound (b : sbound) : str :=
  match b with
  | SPreceding None => s_unbounded ++ s_preceding
  | SPreceding (Some n) => show_z n ++ s_preceding
  | SCurrentRow => s_current_row
  | SFollowing None => s_unbounded ++ s_following
  | SFollowing (Some n) => show_z n ++ s_following
  end.
Definition show_frame (f : option sframe) : str :=
  match f with
  | None => []
  | Some f => (match f_units f with KRows => s_rows | KRange => s_range end) ++ s_between ++ show_bound (f_start f) ++ s_and ++ show_bound (f_end f)
  end.

(* ---------------------------------------------------------------- (3) what SQL means by a frame *)
(* frames the SQL grammar/semantics accept: the start is not UNBOUNDED FOLLOWING, the end is not
   UNBOUNDED PRECEDING, offsets are non-negative, and the start bound's class does not come after the end's *)
Definition bound_ok (b : sbound) : bool :=
  match b with SPreceding (Some n) | SFollowing (Some n) => 0 <=? n | _ => true end.
Definition bound_class (b : sbound) : Z := match b with SPreceding _ => 0 | SCurrentRow => 1 | SFollowing _ => 2 end.
Definition sframe_ok (f : sframe) : bool :=
  bound_ok (f_start f) && bound_ok (f_end f)
  && (match f_start f with SFollowing None => false | _ => true end)
  && (match f_end f with SPreceding None => false | _ => true end)
  && (bound_class (f_start f) <=? bound_class (f_end f)).

(* ROWS: positions relative to i *)
Definition rows_from (i j : Z) (s : sbound) : bool :=
  match s with
  | SPreceding None => true
  | SPreceding (Some k) => i - k <=? j
  | SCurrentRow => i <=? j
  | SFollowing (Some k) => i + k <=? j
  | SFollowing None => false
  end.
Definition rows_to (i j : Z) (e : sbound) : bool :=
  match e with
  | SFollowing None => true
  | SFollowing (Some k) => j <=? i + k
  | SCurrentRow => j <=? i
  | SPreceding (Some k) => j <=? i - k
  | SPreceding None => false
  end.

(* RANGE: CURRENT ROW means "the peers of the current row" (rows equal under the ORDER BY keys);
   numeric offsets need exactly one ascending ORDER BY key with integer values (otherwise SQL rejects the
   query; modelled as selecting nothing) *)
Definition key_int (keys : list (bool * expr)) (r : row) : option Z :=
  match keys with
  | [(false, ke)] => match ev r ke with VInt z => Some z | _ => None end
  | _ => None
  end.
Definition range_from (keys : list (bool * expr)) (me r : row) (s : sbound) : bool :=
  match s with
  | SPreceding None => true
  | SCurrentRow => keys_le keys me r
  | SPreceding (Some d) => match key_int keys me, key_int keys r with Some k, Some x => k - d <=? x | _, _ => false end
  | SFollowing (Some d) => match key_int keys me, key_int keys r with Some k, Some x => k + d <=? x | _, _ => false end
  | SFollowing None => false
  end.
Definition range_to (keys : list (bool * expr)) (me r : row) (e : sbound) : bool :=
  match e with
  | SFollowing None => true
  | SCurrentRow => keys_le keys r me
  | SFollowing (Some d) => match key_int keys me, key_int keys r with Some k, Some x => x <=? k + d | _, _ => false end
  | SPreceding (Some d) => match key_int keys me, key_int keys r with Some k, Some x => x <=? k - d | _, _ => false end
  | SPreceding None => false
  end.

(* the frame an OVER (...) WITHOUT frame clause has *)
Definition sql_implicit_frame (sorted : bool) : sframe :=
  if sorted then mk_sframe KRange (SPreceding None) SCurrentRow
  else mk_sframe KRows (SPreceding None) (SFollowing None).

Definition is_sorted (keys : list (bool * expr)) : bool := match keys with [] => false | _ => true end.

Definition explicit_segment (f : sframe) (keys : list (bool * expr)) (p : rel) (i : nat) : list nat :=
  match f_units f with
  | KRows => filter (fun j => rows_from (Z.of_nat i) (Z.of_nat j) (f_start f) && rows_to (Z.of_nat i) (Z.of_nat j) (f_end f)) (seq 0 (length p))
  | KRange =>
      match nth_error p i with
      | Some me => filter (fun j => match nth_error p j with
                                    | Some r => range_from keys me r (f_start f) && range_to keys me r (f_end f)
                                    | None => false end) (seq 0 (length p))
      | None => []
      end
  end.

(* positions (of the partition p, sorted by keys) a window function at row i sees *)
Definition sql_frame_segment (f : option sframe) (keys : list (bool * expr)) (p : rel) (i : nat) : list nat :=
  explicit_segment (match f with Some f => f | None => sql_implicit_frame (is_sorted keys) end) keys p i.

(* ---------------------------------------------------------------- (4) the documented meaning *)
Definition rel_frame (f : frame3) : frame :=
  match f with (KRows, a, b) => FRows a b | (KRange, a, b) => FRange a b end.
Definition prql_segment (f : frame3) (keys : list (bool * expr)) (p : rel) (i : nat) : list nat := seg (rel_frame f) keys p i.

(* domain of range frames in the reference semantics: one ascending key, integer on every row *)
Definition range_key_ok (keys : list (bool * expr)) (p : rel) : Prop :=
  exists ke, keys = [(false, ke)] /\ forall r, In r p -> exists z, ev r ke = VInt z.
Definition range_key_okb (keys : list (bool * expr)) (p : rel) : bool :=
  match keys with
  | [(false, ke)] => forallb (fun r => match ev r ke with VInt _ => true | _ => false end) p
  | _ => false
  end.

(* the class of the known finding F22: a function that is never given a frame clause, asked for a frame
   that is not the one SQL assumes *)
Definition known_f22 (supports sorted : bool) (f : frame3) : bool := negb supports && negb (frame3_eqb f (default_frame sorted)).

(* decidable equality of emitted clauses (for the table obligations over Gen/GenWindow.v) *)
Definition sbound_eqb (a b : sbound) : bool :=
  match a, b with
  | SPreceding x, SPreceding y | SFollowing x, SFollowing y => oz_eqb x y
  | SCurrentRow, SCurrentRow => true
  | _, _ => false
  end.
Definition sframe_eqb (f g : sframe) : bool :=
  wkind_eqb (f_units f) (f_units g) && sbound_eqb (f_start f) (f_start g) && sbound_eqb (f_end f) (f_end g).
Definition osframe_eqb (f g : option sframe) : bool :=
  match f, g with None, None => true | Some x, Some y => sframe_eqb x y | _, _ => false end.
Definition bounds_eqb (x y : bounds) : bool := oz_eqb (fst x) (fst y) && oz_eqb (snd x) (snd y).

(* finite domains the generated code is compared on *)
Definition small_bounds : list (option Z) := [None; Some (-3); Some (-2); Some (-1); Some 0; Some 1; Some 2; Some 3].
Definition small_ranges : list bounds := flat_map (fun a => map (fun b => (a, b)) small_bounds) small_bounds.
Definition small_frames : list frame3 := flat_map (fun k => map (fun r : bounds => (k, fst r, snd r)) small_ranges) [KRows; KRange].
Definition small_rollings : list Z := [-2; -1; 0; 1; 2; 3; 4].

(* for the correspondence check: (kind, start, end) as plain data, and the clause text *)
Definition kind_code (k : wkind) : N := match k with KRows => 0%N | KRange => 1%N end.
Definition oz_list (o : option Z) : list Z := match o with Some z => [z] | None => [] end.
Definition frame3_data (f : frame3) : N * list Z * list Z := match f with (k, a, b) => (kind_code k, oz_list a, oz_list b) end.

(* C17: executable model of the prqlc lexer (prqlc/prqlc-parser/src/lexer/mod.rs, chumsky 0.12 combinators),
   written PEG-style: every parser is a total function  str -> option (value * rest).
   Definitions only (no proofs here).

   - Strings are lists of Unicode code points (Lib.ListX.str); spans are UTF-8 BYTE offsets, as in Rust
     (chumsky's SimpleSpan over &str), computed as prefix sums of [utf8_len].
   - Everything that is table data in the Rust source (keyword list, operator list and order, control characters,
     end_expr set, units, escape table, digit caps, order of the alternatives of token()/literal()) is a field
     of the record [tables]; the instance used by the theorems and by the correspondence run is assembled in
     Model/LexerGen.v from Gen/GenLexTables.v, which a translator regenerates from the Rust source on every run.
   - Rust's char::is_alphabetic / char::is_alphanumeric are Section variables (no axioms): theorems hold for
     every pair of class functions (the re-lex theorem under the stated hypotheses [class_ok]); the executable
     instance is Model/LexerExec.v, validated against Rust through the harness command `charclass`.
   Modelling conventions: no pattern matching on numeric literals (tests by N.eqb / [eat]); every sub-parser
   has a name, so that it gets its own lemmas in Proofs/. *)
From Coq Require Import List NArith Bool.
From PV Require Import Lib.ListX.
Import ListNotations.
Local Open Scope N_scope.

Definition chr := N.

(* ---- character classes that are fixed by the Rust source (ASCII tests) ---- *)
Definition c_in (c : chr) (l : list chr) : bool := existsb (N.eqb c) l.
Definition is_digit (c : chr) := (48 <=? c) && (c <=? 57).               (* char::is_ascii_digit *)
Definition is_hex (c : chr) :=                                            (* char::is_ascii_hexdigit *)
  is_digit c || ((97 <=? c) && (c <=? 102)) || ((65 <=? c) && (c <=? 70)).
Definition is_oct (c : chr) := (48 <=? c) && (c <=? 55).                  (* ('0'..='7').contains(c) *)
Definition is_bin (c : chr) := (c =? 48) || (c =? 49).                    (* *c == '0' || *c == '1' *)
Definition is_iws (c : chr) := (c =? 32) || (c =? 9).                     (* chumsky text::inline_whitespace: ' ' | '\t' *)
Definition is_nl (c : chr) := (c =? 10) || (c =? 13).
Definition not_nl (c : chr) := negb (is_nl c).                            (* none_of("\n\r") *)
Definition digit_class (id : N) : chr -> bool :=
  if id =? 0 then is_bin else if id =? 1 then is_hex else is_oct.

(* UTF-8 length of a code point; byte length of a string *)
Definition utf8_len (c : chr) : N :=
  if c <? 128 then 1 else if c <? 2048 then 2 else if c <? 65536 then 3 else 4.
Fixpoint blen (s : str) : N := match s with [] => 0 | c :: r => utf8_len c + blen r end.

(* ---- byte-offset slicing of a code-point string (used to state the properties) ----
   bslice s a b = the code points of s whose first byte lies in [a, b) *)
Fixpoint bdrop (s : str) (n : N) : str :=
  match s with [] => [] | c :: r => if n =? 0 then s else bdrop r (n - utf8_len c) end.
Fixpoint btake (s : str) (n : N) : str :=
  match s with [] => [] | c :: r => if n =? 0 then [] else c :: btake r (n - utf8_len c) end.
Definition bslice (s : str) (a b : N) : str := btake (bdrop s a) (b - a).
(* n is the byte offset of a code-point boundary of s *)
Definition boundary (s : str) (n : N) : Prop := exists p r, s = p ++ r /\ blen p = n.

(* ---- tokens (lexer/lr.rs) ---- *)
Inductive lit :=
| LNull | LInt (n : N) | LFloat (txt : str) (* the decimal text handed to str::parse::<f64> *) | LBool (b : bool)
| LString (s : str) | LRaw (s : str)
| LDate (s : str) | LTime (s : str) | LTimestamp (s : str)
| LVU (n : N) (u : str).

Inductive kind :=
| KNewLine | KIdent (s : str) | KKeyword (s : str) | KLiteral (l : lit) | KParam (s : str)
| KRange (bind_left bind_right : bool) | KInterp (c : chr) (s : str) | KControl (c : chr)
| KOp (variant : str)            (* ArrowThin ... Pow: the TokenKind variant name, from the operator table *)
| KAnnotate
| KComment (s : str) | KDocComment (s : str)
| KLineWrap (cs : list (bool * str))  (* comments inside the wrap: (is_doc_comment, text) *)
| KStart.

Record token := { tkind : kind; tstart : N; tend : N }.

(* ---- the tables (see Gen/GenLexTables.v for the meaning of each) ---- *)
Record tables := {
  t_token_order : list N;
  t_literal_order : list N;
  t_keywords : list str;
  t_ops : list (str * (str * bool));
  t_controls : str;
  t_end_chars : str;
  t_interp : str;
  t_units : list str;
  t_true : str; t_false : str; t_null : str;
  t_escapes : list (N * N);
  t_u_hex_max : nat; t_x_hex_len : nat;
  t_based : list (str * (N * (nat * N)));
  t_date_digits : list nat; t_time_digits : list nat; t_tz_digits : list nat; t_ms_max : nat }.

(* ---- small combinators ---- *)
Fixpoint span_while (p : chr -> bool) (s : str) : str * str :=
  match s with
  | c :: r => if p c then let (a, b) := span_while p r in (c :: a, b) else ([], s)
  | [] => ([], [])
  end.

(* .repeated().at_most(n) *)
Fixpoint span_while_max (p : chr -> bool) (n : nat) (s : str) : str * str :=
  match n, s with
  | S n', c :: r => if p c then let (a, b) := span_while_max p n' r in (c :: a, b) else ([], s)
  | _, _ => ([], s)
  end.

Definition eat (c : chr) (s : str) : option str :=
  match s with x :: r => if x =? c then Some r else None | [] => None end.
Definition eat2 (c1 c2 : chr) (s : str) : option str :=
  match eat c1 s with Some r => eat c2 r | None => None end.
Definition opt_eat (c : chr) (s : str) : str := match eat c s with Some r => r | None => s end.
Definition peek_is (c : chr) (s : str) : bool := match s with x :: _ => x =? c | [] => false end.
Definition is_some {A} (o : option A) : bool := match o with Some _ => true | None => false end.

(* choice((just(w1), just(w2), ...)): the first candidate that is a prefix *)
Fixpoint first_prefix (cands : list str) (s : str) : option (str * str) :=
  match cands with
  | [] => None
  | c :: cs => match strip_prefix c s with
               | Some r => Some (c, r)
               | None => first_prefix cs s
               end
  end.

Fixpoint lookup (c : N) (l : list (N * N)) : option N :=
  match l with [] => None | (a, b) :: r => if c =? a then Some b else lookup c r end.

(* newline(): '\n' | '\r' '\n'? *)
Definition p_newline (s : str) : option str :=
  match eat 10 s with
  | Some r => Some r
  | None =>
      match eat 13 s with
      | Some r => Some (opt_eat 10 r)
      | None => None
      end
  end.

Definition skip_ws (s : str) : str := snd (span_while is_iws s).       (* whitespace().or_not() / .repeated() *)

(* comment(): '#' ('!' text -> DocComment | text -> Comment), text = none_of("\n\r")* ; returns (is_doc, text) *)
Definition p_comment_raw (s : str) : option ((bool * str) * str) :=
  match eat2 35 33 s with
  | Some r => let (t, r') := span_while not_nl r in Some ((true, t), r')
  | None =>
      match eat 35 s with
      | Some r => let (t, r') := span_while not_nl r in Some ((false, t), r')
      | None => None
      end
  end.
Definition comment_kind (c : bool * str) : kind := if fst c then KDocComment (snd c) else KComment (snd c).
Definition p_comment (s : str) : option (kind * str) :=
  match p_comment_raw s with Some (c, r) => Some (comment_kind c, r) | None => None end.

(* line_wrap(): newline (ws* comment newline)* ws* '\' *)
Fixpoint lw_comments (fuel : nat) (s : str) : list (bool * str) * str :=
  match fuel with
  | O => ([], s)
  | S f =>
      match p_comment_raw (skip_ws s) with
      | Some (k, r) =>
          match p_newline r with
          | Some r' => let (ks, r'') := lw_comments f r' in (k :: ks, r'')
          | None => ([], s)
          end
      | None => ([], s)
      end
  end.

Definition p_line_wrap (s : str) : option (kind * str) :=
  match p_newline s with
  | Some r =>
      let (ks, r') := lw_comments (List.length r) r in
      match eat 92 (skip_ws r') with
      | Some r'' => Some (KLineWrap ks, r'')
      | None => None
      end
  | None => None
  end.

Definition p_newline_tok (s : str) : option (kind * str) :=
  match p_newline s with Some r => Some (KNewLine, r) | None => None end.

(* ---- escapes inside quoted strings (parse_escape_sequence; [s] is the input after the backslash) ---- *)
Definition hex_val (c : chr) : N :=
  if is_digit c then c - 48 else if (97 <=? c) && (c <=? 102) then c - 87 else c - 55.
Definition digits_val (base : N) (s : str) : N := fold_left (fun a c => a * base + hex_val c) s 0.
Definition hex_num (s : str) : N := digits_val 16 s.
(* char::from_u32(n).unwrap_or('\u{FFFD}') *)
Definition char_from_u32 (n : N) : chr :=
  if (n <? 55296) || ((57343 <? n) && (n <? 1114112)) then n else 65533.

Fixpoint count_prefix (q : chr) (s : str) : nat * str :=
  match s with
  | c :: r => if c =? q then let (n, r') := count_prefix q r in (S n, r') else (O, s)
  | [] => (O, [])
  end.

(* try to consume exactly n quote characters *)
Fixpoint take_quotes (q : chr) (n : nat) (s : str) : option str :=
  match n with
  | O => Some s
  | S n' => match s with c :: r => if c =? q then take_quotes q n' r else None | [] => None end
  end.

(* ---- numbers ---- *)
Definition is_digit_us (c : chr) := is_digit c || (c =? 95).
Definition no_us (s : str) : str := filter (fun c => negb (c =? 95)) s.
Definition dec_val (s : str) : N := digits_val 10 s.
Definition i64_max : N := 9223372036854775807.

(* parse_integer(): nonzero digit (digit | '_')*  |  '0' *)
Definition p_integer (s : str) : option (str * str) :=
  match s with
  | c :: r =>
      if is_digit c && negb (c =? 48) then
        let (t, r') := span_while is_digit_us r in Some (c :: t, r')
      else if c =? 48 then Some ([48], r) else None
  | [] => None
  end.

(* '.' digit (digit | '_')*   (optional) *)
Definition p_frac (r : str) : str * str :=
  match eat 46 r with
  | Some (d :: r') =>
      if is_digit d then let (t, r'') := span_while is_digit_us r' in (46 :: d :: t, r'')
      else ([], r)
  | _ => ([], r)
  end.

Definition p_sign (r : str) : str * str :=
  match r with c :: t => if (c =? 43) || (c =? 45) then ([c], t) else ([], r) | [] => ([], r) end.

(* [eE] [+-]? digit+   (optional) *)
Definition p_exp (r1 : str) : str * str :=
  match r1 with
  | e :: r' =>
      if (e =? 101) || (e =? 69) then
        let '(sg, r'') := p_sign r' in
        match span_while is_digit r'' with
        | ([], _) => ([], r1)
        | (ds, r3) => (e :: sg ++ ds, r3)
        end
      else ([], r1)
  | [] => ([], r1)
  end.

(* number(): i64 if it parses as one, else f64 (kept as its text) *)
Definition p_number (s : str) : option (lit * str) :=
  match p_integer s with
  | Some (ip, r) =>
      let '(frac, r1) := p_frac r in
      let '(ex, r2) := p_exp r1 in
      let txt := no_us (ip ++ frac ++ ex) in
      match frac, ex with
      | [], [] => let v := dec_val txt in
                  if v <=? i64_max then Some (LInt v, r2) else Some (LFloat txt, r2)
      | _, _ => Some (LFloat txt, r2)
      end
  | None => None
  end.

(* raw_string(): 'r' quote (not quote, not newline)* quote   -- either quote closes *)
Definition is_quote (c : chr) := (c =? 39) || (c =? 34).
Definition raw_body (c : chr) := negb (is_quote c || is_nl c).
Definition p_raw (s : str) : option (lit * str) :=
  match eat 114 s with
  | Some (q :: r) =>
      if is_quote q then
        let (b, r') := span_while raw_body r in
        match r' with
        | q' :: r'' => if is_quote q' then Some (LRaw b, r'') else None
        | [] => None
        end
      else None
  | _ => None
  end.

(* digits(n): text::digits(10).exactly(n) *)
Definition p_digits_n (n : nat) (s : str) : option (str * str) :=
  let (d, r) := span_while_max is_digit n s in
  if Nat.eqb (List.length d) n then Some (d, r) else None.

(* time_component(sep, p): (sep p)?  *)
Definition opt_comp (sep : chr) (p : str -> option (str * str)) (s : str) : str * str :=
  match s with
  | c :: r => if c =? sep then match p r with Some (d, r') => (sep :: d, r') | None => ([], s) end
              else ([], s)
  | [] => ([], s)
  end.

Definition p_digits_1_max (m : nat) (s : str) : option (str * str) :=
  match span_while_max is_digit m s with ([], _) => None | x => Some x end.

Definition orelse {A} (a : option A) (b : option A) : option A := match a with Some _ => a | None => b end.

(* ---- does the decimal text of a Float literal parse (str::parse::<f64>, correctly rounded, ties to even) to infinity?
   txt = digits ['.' digits] [('e'|'E') ['+'|'-'] digits]  (underscores already removed).
   value = M * 10^E with M the integer and fraction digits read as one number, E = exponent - number of fraction digits.
   The largest finite double is 2^1024 - 2^971 (odd mantissa); the midpoint to 2^1024 rounds up, so the text is
   non-finite  iff  value >= 2^1024 - 2^970.  Exponents are clamped before any power is computed. *)
Definition f64_inf_threshold : N := N.shiftl 1 1024 - N.shiftl 1 970.
Definition float_nonfinite (txt : str) : bool :=
  let (ip, r0) := span_while is_digit txt in
  let '(fr, r1) := match eat 46 r0 with Some r => span_while is_digit r | None => ([], r0) end in
  let '(neg, ex) :=
    match r1 with
    | e :: r =>
        if (e =? 101) || (e =? 69) then
          match r with
          | sg :: r' => if sg =? 45 then (true, fst (span_while is_digit r'))
                        else if sg =? 43 then (false, fst (span_while is_digit r'))
                        else (false, fst (span_while is_digit r))
          | [] => (false, [])
          end
        else (false, [])
    | [] => (false, [])
    end in
  let m := digits_val 10 (ip ++ fr) in
  let nd := N.of_nat (List.length (ip ++ fr)) in
  let fl := N.of_nat (List.length fr) in
  let x := digits_val 10 ex in
  if m =? 0 then false
  else if neg then
    (* E = -(x + fl) < 0: value = m / 10^(x+fl) *)
    let k := x + fl in
    if nd <? k then false else f64_inf_threshold * N.pow 10 k <=? m
  else if fl <=? x then
    let e := x - fl in
    if 400 <? e then true else f64_inf_threshold <=? m * N.pow 10 e
  else
    let k := fl - x in
    if nd <? k then false else f64_inf_threshold * N.pow 10 k <=? m.

Section Lexer.
  Variable is_alpha : chr -> bool.   (* char::is_alphabetic *)
  Variable is_alnum : chr -> bool.   (* char::is_alphanumeric *)
  Variable T : tables.

  (* end_expr(): end | one_of(end_chars) | newline | ".."   (look-ahead only) *)
  Definition end_expr (s : str) : bool :=
    match s with
    | [] => true
    | c :: _ => c_in c (t_end_chars T) || is_nl c || is_some (eat2 46 46 s)
    end.

  Definition is_ident_start (c : chr) := is_alpha c || (c =? 95).
  Definition is_ident_cont (c : chr) := is_alnum c || (c =? 95).
  Definition not_backtick (c : chr) := negb (c =? 96).

  (* ident_part(): plain | `...` *)
  Definition p_ident_plain (s : str) : option (str * str) :=
    match s with
    | c :: r => if is_ident_start c
                then let (t, r') := span_while is_ident_cont r in Some (c :: t, r')
                else None
    | [] => None
    end.
  Definition p_ident_bt (s : str) : option (str * str) :=
    match eat 96 s with
    | Some r =>
        let (body, r') := span_while not_backtick r in
        match eat 96 r' with Some r'' => Some (body, r'') | None => None end
    | None => None
    end.
  Definition p_ident_part (s : str) : option (str * str) := orelse (p_ident_plain s) (p_ident_bt s).
  Definition p_ident (s : str) : option (kind * str) :=
    match p_ident_part s with Some (i, r) => Some (KIdent i, r) | None => None end.

  Definition is_param_char (c : chr) := is_alnum c || (c =? 95) || (c =? 46).
  Definition p_param (s : str) : option (kind * str) :=
    match eat 36 s with
    | Some r => let (t, r') := span_while is_param_char r in Some (KParam t, r')
    | None => None
    end.

  (* multi_char_operators(): ordered; entries flagged [true] need end_expr after them *)
  Fixpoint p_ops (ops : list (str * (str * bool))) (s : str) : option (kind * str) :=
    match ops with
    | [] => None
    | (txt, (name, need_end)) :: rest =>
        match strip_prefix txt s with
        | Some r => if need_end then (if end_expr r then Some (KOp name, r) else p_ops rest s)
                    else Some (KOp name, r)
        | None => p_ops rest s
        end
    end.
  Definition p_multi (s : str) : option (kind * str) := p_ops (t_ops T) s.

  (* ---- quoted strings ---- *)
  Definition p_escape_u (r1 : str) : chr * str :=         (* after "u{" *)
    let (h, r2) := span_while_max is_hex (t_u_hex_max T) r1 in
    (char_from_u32 (hex_num h), opt_eat 125 r2).
  Definition p_escape_x (c : chr) (r : str) : chr * str :=   (* after "x" *)
    let (h, r2) := span_while_max is_hex (t_x_hex_len T) r in
    if Nat.eqb (List.length h) (t_x_hex_len T) then (char_from_u32 (hex_num h), r2) else (c, r2).
  Definition p_escape (s : str) : chr * str :=
    match s with
    | [] => (92, [])
    | c :: r =>
        match lookup c (t_escapes T) with
        | Some v => (v, r)
        | None =>
            if (c =? 117) && peek_is 123 r then p_escape_u (opt_eat 123 r)
            else if c =? 120 then p_escape_x c r
            else (c, r)     (* the quote character, or any other character: kept *)
        end
    end.

  (* content of an odd-quoted string up to the closing run of n quotes; quoted_string is only ever called
     with escaped = true *)
  Fixpoint mq_body (fuel : nat) (q : chr) (n : nat) (s : str) : option (str * str) :=
    match fuel with
    | O => None
    | S f =>
        match take_quotes q n s with
        | Some r => Some ([], r)
        | None =>
            match s with
            | [] => None
            | c :: r =>
                if c =? 92 then
                  let (e, r') := p_escape r in
                  match mq_body f q n r' with Some (b, r'') => Some (e :: b, r'') | None => None end
                else
                  match mq_body f q n r with Some (b, r'') => Some (c :: b, r'') | None => None end
            end
        end
    end.

  Definition p_multi_quoted (q : chr) (s : str) : option (str * str) :=
    let (n, r) := count_prefix q s in
    match n with
    | O => None
    | _ => if Nat.even n then Some ([], r) else mq_body (S (List.length r)) q n r
    end.

  Definition p_quoted (s : str) : option (str * str) :=
    orelse (p_multi_quoted 34 s) (p_multi_quoted 39 s).

  Definition p_interp (s : str) : option (kind * str) :=
    match s with
    | c :: r => if c_in c (t_interp T)
                then match p_quoted r with Some (b, r') => Some (KInterp c b, r') | None => None end
                else None
    | [] => None
    end.

  (* ---- literals ---- *)
  Definition p_based_entry (e : str * (N * (nat * N))) (s : str) : option (lit * str) :=
    let '(pre, (base, (maxd, cls))) := e in
    match strip_prefix pre s with
    | Some r =>
        match span_while_max (digit_class cls) maxd (opt_eat 95 r) with
        | ([], _) => None
        | (d, r2) => Some (LInt (digits_val base d), r2)
        end
    | None => None
    end.
  Definition p_based_nth (i : nat) (s : str) : option (lit * str) :=
    match nth_error (t_based T) i with Some e => p_based_entry e s | None => None end.

  Definition p_string (s : str) : option (lit * str) :=
    match p_quoted s with Some (b, r) => Some (LString b, r) | None => None end.

  Definition p_value_unit (s : str) : option (lit * str) :=
    match p_integer s with
    | Some (d, r) =>
        match first_prefix (t_units T) r with
        | Some (u, r') =>
            if end_expr r' then
              let v := dec_val (no_us d) in
              (* try_map: a count that does not fit an i64 is not an interval literal (the alternative fails) *)
              if v <=? i64_max then Some (LVU v u, r') else None
            else None
        | None => None
        end
    | None => None
    end.

  Definition p_word_end (w : str) (s : str) : option str :=
    match strip_prefix w s with
    | Some r => if end_expr r then Some r else None
    | None => None
    end.
  Definition p_boolean (s : str) : option (lit * str) :=
    match p_word_end (t_true T) s with
    | Some r => Some (LBool true, r)
    | None => match p_word_end (t_false T) s with Some r => Some (LBool false, r) | None => None end
    end.
  Definition p_null (s : str) : option (lit * str) :=
    match p_word_end (t_null T) s with Some r => Some (LNull, r) | None => None end.

  Definition p_lit_alt (id : N) (s : str) : option (lit * str) :=
    if id =? 0 then p_based_nth 0 s
    else if id =? 1 then p_based_nth 1 s
    else if id =? 2 then p_based_nth 2 s
    else if id =? 3 then p_string s
    else if id =? 4 then p_raw s
    else if id =? 5 then p_value_unit s
    else if id =? 6 then p_number s
    else if id =? 7 then p_boolean s
    else if id =? 8 then p_null s
    else None.
  Fixpoint first_lit (ids : list N) (s : str) : option (lit * str) :=
    match ids with
    | [] => None
    | i :: r => match p_lit_alt i s with Some x => Some x | None => first_lit r s end
    end.
  Definition p_literal (s : str) : option (kind * str) :=
    match first_lit (t_literal_order T) s with Some (l, r) => Some (KLiteral l, r) | None => None end.

  Definition p_keyword (s : str) : option (kind * str) :=
    match first_prefix (t_keywords T) s with
    | Some (k, r) => if end_expr r then Some (KKeyword k, r) else None
    | None => None
    end.

  (* ---- date / time ---- *)
  Definition dd (i : nat) : nat := nth i (t_date_digits T) O.
  Definition td (i : nat) : nat := nth i (t_time_digits T) O.
  Definition zd (i : nat) : nat := nth i (t_tz_digits T) O.

  Definition p_date_inner (s : str) : option (str * str) :=
    match p_digits_n (dd 0) s with
    | Some (y, r0) =>
        match eat 45 r0 with
        | Some r =>
            match p_digits_n (dd 1) r with
            | Some (m, r1) =>
                match eat 45 r1 with
                | Some r' =>
                    match p_digits_n (dd 2) r' with
                    | Some (d, r'') => Some (y ++ 45 :: m ++ 45 :: d, r'')
                    | None => None
                    end
                | None => None
                end
            | None => None
            end
        | None => None
        end
    | None => None
    end.

  (* 'Z' | [+-] digits(2) ':'? digits(2)   (optional; the colon is dropped from the payload) *)
  Definition p_tz (r3 : str) : str * str :=
    match eat 90 r3 with
    | Some r' => ([90], r')
    | None =>
        match r3 with
        | sg :: r' =>
            if (sg =? 43) || (sg =? 45) then
              match p_digits_n (zd 0) r' with
              | Some (hh, r'') =>
                  match p_digits_n (zd 1) (opt_eat 58 r'') with
                  | Some (mm, r5) => (sg :: hh ++ mm, r5)
                  | None => ([], r3)
                  end
              | None => ([], r3)
              end
            else ([], r3)
        | [] => ([], r3)
        end
    end.

  Definition p_time_inner (s : str) : option (str * str) :=
    match p_digits_n (td 0) s with
    | Some (h, r) =>
        let '(mi, r1) := opt_comp 58 (p_digits_n (td 1)) r in
        let '(se, r2) := opt_comp 58 (p_digits_n (td 2)) r1 in
        let '(ms, r3) := opt_comp 46 (p_digits_1_max (t_ms_max T)) r2 in
        let '(tz, r4) := p_tz r3 in
        Some (h ++ mi ++ se ++ ms ++ tz, r4)
    | None => None
    end.

  Definition p_timestamp (r : str) : option (kind * str) :=
    match p_date_inner r with
    | Some (da, r0) =>
        match eat 84 r0 with
        | Some r1 =>
            match p_time_inner r1 with
            | Some (ti, r2) => if end_expr r2 then Some (KLiteral (LTimestamp (da ++ 84 :: ti)), r2) else None
            | None => None
            end
        | None => None
        end
    | None => None
    end.
  Definition p_date (r : str) : option (kind * str) :=
    match p_date_inner r with
    | Some (da, r1) => if end_expr r1 then Some (KLiteral (LDate da), r1) else None
    | None => None
    end.
  Definition p_time (r : str) : option (kind * str) :=
    match p_time_inner r with
    | Some (ti, r1) => if end_expr r1 then Some (KLiteral (LTime ti), r1) else None
    | None => None
    end.

  (* date_token(): '@' followed by a digit (look-ahead), then timestamp | date | time *)
  Definition p_date_token (s : str) : option (kind * str) :=
    match eat 64 s with
    | Some r =>
        if (match r with d :: _ => is_digit d | [] => false end)
        then orelse (p_timestamp r) (orelse (p_date r) (p_time r))
        else None
    | None => None
    end.

  Definition p_control (s : str) : option (kind * str) :=
    match s with c :: r => if c_in c (t_controls T) then Some (KControl c, r) else None | [] => None end.
  Definition p_annotate (s : str) : option (kind * str) :=
    match eat 64 s with Some r => Some (KAnnotate, r) | None => None end.

  (* token(): ordered choice; the order is a table *)
  Definition p_alt (id : N) (s : str) : option (kind * str) :=
    if id =? 0 then p_line_wrap s
    else if id =? 1 then p_newline_tok s
    else if id =? 2 then p_multi s
    else if id =? 3 then p_interp s
    else if id =? 4 then p_param s
    else if id =? 5 then p_date_token s
    else if id =? 6 then p_annotate s
    else if id =? 7 then p_control s
    else if id =? 8 then p_literal s
    else if id =? 9 then p_keyword s
    else if id =? 10 then p_ident s
    else if id =? 11 then p_comment s
    else None.
  Fixpoint first_alt (ids : list N) (s : str) : option (kind * str) :=
    match ids with
    | [] => None
    | i :: r => match p_alt i s with Some x => Some x | None => first_alt r s end
    end.
  Definition p_token (s : str) : option (kind * str) := first_alt (t_token_order T) s.

  (* lex_token(): choice(range, ws? token).  The range token's span includes the whitespace on both sides;
     every other token's span starts after the skipped whitespace.  [pos] = byte offset of [s] in the source. *)
  Definition p_lex_token (pos : N) (s : str) : option (token * str) :=
    let after_ws := skip_ws s in
    let had_l := negb (Nat.eqb (List.length after_ws) (List.length s)) in
    match eat2 46 46 after_ws with
    | Some r =>
        let r' := skip_ws r in
        let had_r := negb (Nat.eqb (List.length r') (List.length r)) in
        Some ({| tkind := KRange (negb had_l) (negb had_r); tstart := pos;
                 tend := pos + (blen s - blen r') |}, r')
    | None =>
        match p_token after_ws with
        | Some (k, r) =>
            Some ({| tkind := k; tstart := pos + (blen s - blen after_ws);
                     tend := pos + (blen s - blen r) |}, r)
        | None => None
        end
    end.

  (* lexer(): lex_token().repeated() then whitespace().or_not() then end of input (Parser::parse) *)
  Fixpoint lex_loop (fuel : nat) (pos : N) (s : str) : option (list token) :=
    match fuel with
    | O => None
    | S f =>
        match p_lex_token pos s with
        | Some (t, r) =>
            match lex_loop f (tend t) r with
            | Some ts => Some (t :: ts)
            | None => None
            end
        | None =>
            match skip_ws s with [] => Some [] | _ => None end
        end
    end.

  Definition start_token : token := {| tkind := KStart; tstart := 0; tend := 0 |}.

  (* non_finite_literals(): a Float token whose text str::parse::<f64> maps to infinity *)
  Definition tok_finite (t : token) : bool :=
    match tkind t with
    | KLiteral (LFloat txt) => negb (float_nonfinite txt)
    | _ => true
    end.

  (* lex_source(): None = Err(errors) (no tokens at all), Some = Ok(insert_start(tokens)).
     After the token loop, a source containing a non-finite number literal is rejected as a whole. *)
  Definition lex (s : str) : option (list token) :=
    match lex_loop (S (List.length s)) 0 s with
    | Some ts => if forallb tok_finite ts then Some (start_token :: ts) else None
    | None => None
    end.
End Lexer.

(* C04 -- vocabulary for the tables Gen/GenWindow.v regenerates from the source on every run:
   the std.sql.prql function table (which functions carry window_frame=true / coalesce, per dialect
   module), the column-complexity rules of sql/pq/anchor.rs that keep a windowed column out of WHERE,
   and the SPECIFICATION they are judged against.  Executable definitions only. *)
From Coq Require Import List ZArith NArith Bool.
From PV Require Import Lib.ListX Model.SplitBase.
Import ListNotations.

(* ---- std.sql.prql ---- *)
Record std_fn := mk_std_fn { sf_module : str; sf_name : str; sf_window_frame : bool; sf_coalesce : option str }.

(* sql/operators.rs find_operator_impl: the dialect's module first, then the root module *)
Definition lookup_fn (tbl : list std_fn) (dialect name : str) : option std_fn :=
  match find (fun f => leqb (sf_module f) dialect && leqb (sf_name f) name) tbl with
  | Some f => Some f
  | None => find (fun f => leqb (sf_module f) [] && leqb (sf_name f) name) tbl
  end.
Definition supports_frame (tbl : list std_fn) (dialect name : str) : bool :=
  match lookup_fn tbl dialect name with Some f => sf_window_frame f | None => false end.

(* the 12 window-capable functions of the property *)
Definition n_sum : str := [115;117;109]%N.
Definition n_min : str := [109;105;110]%N.
Definition n_max : str := [109;97;120]%N.
Definition n_average : str := [97;118;101;114;97;103;101]%N.
Definition n_count : str := [99;111;117;110;116]%N.
Definition n_lag : str := [108;97;103]%N.
Definition n_lead : str := [108;101;97;100]%N.
Definition n_first : str := [102;105;114;115;116]%N.
Definition n_last : str := [108;97;115;116]%N.
Definition n_rank : str := [114;97;110;107]%N.
Definition n_rank_dense : str := [114;97;110;107;95;100;101;110;115;101]%N.
Definition n_row_number : str := [114;111;119;95;110;117;109;98;101;114]%N.

(* SPECIFICATION (SQL): the value of these depends on the frame; ROW_NUMBER, RANK, DENSE_RANK, LAG, LEAD ignore it *)
Definition frame_sensitive : list str := [n_sum; n_min; n_max; n_average; n_count; n_first; n_last].
Definition frame_insensitive : list str := [n_lag; n_lead; n_rank; n_rank_dense; n_row_number].

Fixpoint dedup_str (l : list str) : list str :=
  match l with [] => [] | x :: t => x :: filter (fun y => negb (leqb x y)) (dedup_str t) end.
Definition modules (tbl : list std_fn) : list str := dedup_str ([] :: map sf_module tbl).

(* (dialect module, function) pairs for which a frame-sensitive function is emitted without frame clause *)
Definition unframed (tbl : list std_fn) : list (str * str) :=
  flat_map (fun m => flat_map (fun f => if supports_frame tbl m f then [] else [(m, f)]) frame_sensitive) (modules tbl).
Definition mem_str (x : str) (l : list str) : bool := existsb (leqb x) l.

(* ---- column complexity (sql/pq/anchor.rs) ---- *)
Inductive cx := CPlain | CNonGroup | CWindowed | CAggregation.
Definition cx_eqb (a b : cx) : bool :=
  match a, b with CPlain, CPlain | CNonGroup, CNonGroup | CWindowed, CWindowed | CAggregation, CAggregation => true | _, _ => false end.
Fixpoint index_of (c : cx) (l : list cx) : nat :=
  match l with [] => O | x :: t => if cx_eqb c x then O else S (index_of c t) end.
(* derive(PartialOrd) on the enum: declaration order *)
Definition cx_le (order : list cx) (a b : cx) : bool := Nat.leb (index_of a order) (index_of b order).

(* places of one SELECT a column can be used in; SPECIFICATION: where SQL admits a window function *)
Inductive consumer := UWhere | UHaving | UGroupKey | UAggArg | UWindowArg | UPlainExpr | UOrderBy | UJoinOn | UProjection.
Definition sql_admits_window (u : consumer) : bool :=
  match u with UPlainExpr | UOrderBy | UProjection => true | _ => false end.
Definition all_consumers : list consumer := [UWhere; UHaving; UGroupKey; UAggArg; UWindowArg; UPlainExpr; UOrderBy; UJoinOn; UProjection].

(* SPECIFICATION: a column expression commutes with `take` (can be computed before LIMIT/OFFSET instead of after)
   iff it is row-local; a window function or an aggregate sees other rows, so it must be computed on the taken rows *)
Definition row_local (c : cx) : bool := match c with CPlain | CNonGroup => true | CWindowed | CAggregation => false end.
Definition all_cx : list cx := [CPlain; CNonGroup; CWindowed; CAggregation].

(* C14, text level: the SPACED FRAGMENT of the formatter's token lists and its reading by the lexer (C17: Model/Lexer.v).
   A token list is in the fragment when every token is one of
     - a one-part identifier that Ident's Display writes bare (codegen: display_ident_part), true / false / null,
       a non-negative integer up to i64::MAX, a string of printable ASCII without quote characters and backslash (written in
       double quotes without escapes), a parameter `$name`,
     - the spelling of an operator between blanks (TS s false: binary position),
     - an alias `name =` whose name write_ident_part writes bare, `|` (pipe inside a one-line pipeline), `=>` (case arm).
   Between any two such tokens codegen writes exactly one blank (Model/Fmt.v space_between), so the rendered text is the
   token texts joined by single blanks -- the shape C17's forward lemmas (Proofs/LexForward.v render_lex) speak about.
   [tok_kinds] is what the lexer must produce for each token; [untok] reads lexer kinds back to formatter tokens (what the
   parser's token matchers do: ident / literal / param atoms, `name =` read as an alias, controls and operators by spelling).
   Executable definitions only; the proofs are in Proofs/FmtLexProofs.v. *)
From Coq Require Import List NArith ZArith Bool Arith.
From PV Require Import Lib.ListX Model.FmtLit Model.FmtPratt Model.Fmt.
From PV Require Model.Lexer.
Import ListNotations.
Local Open Scope N_scope.

Definition printable_plain (c : N) : bool := in_range c 32 126 && negb (c =? 34) && negb (c =? 92) && negb (c =? 39).
Definition param_char (c : N) : bool := in_ranges [(48, 57); (65, 90); (97, 122)] c || (c =? 95) || (c =? 46).

Section Fragment.
  Variable R : ttab.
  Variable nsym : nat.                         (* symbols below nsym are spellings of operators *)
  Variable skind : nat -> Lexer.kind.          (* the kind the spelling of symbol s lexes to *)
  Variable arrow : Lexer.kind.                 (* the kind of `=>` *)
  Notation I := (ids R).

  Definition spaced_atom (a : atom) : bool :=
    match a with
    | AIdent [w] => leqb (display_ident_part I w) w          (* written bare *)
    | ALit (LBool _) | ALit LNull => true
    | ALit (LInt z) => (0 <=? z)%Z && (Z.to_N z <=? Lexer.i64_max)
    | ALit (LStr s) => forallb printable_plain s
    | AParam s => forallb param_char s
    | _ => false
    end.
  Definition spaced_tok (t : tok) : bool :=
    match t with
    | TA a => spaced_atom a
    | TS s false => (s <? nsym)%nat
    | TAlias n => leqb (write_ident_part I n) n
    | TPipe | TArrow => true
    | _ => false
    end.

  (* the fragment: non-empty lists of such tokens *)
  Definition spaced (ts : list tok) : bool := match ts with [] => false | _ => forallb spaced_tok ts end.

  (* the texts of a token (an alias is two lexer tokens) and the kinds they must lex to *)
  Definition tok_texts (t : tok) : list str :=
    match t with
    | TAlias n => [write_ident_part I n; [61]]
    | _ => [tok_text R t]
    end.
  Definition atom_kind (a : atom) : Lexer.kind :=
    match a with
    | AIdent [w] => Lexer.KIdent w
    | ALit (LBool b) => Lexer.KLiteral (Lexer.LBool b)
    | ALit LNull => Lexer.KLiteral Lexer.LNull
    | ALit (LInt z) => Lexer.KLiteral (Lexer.LInt (Z.to_N z))
    | ALit (LStr s) => Lexer.KLiteral (Lexer.LString s)
    | AParam s => Lexer.KParam s
    | _ => Lexer.KStart
    end.
  Definition tok_kinds (t : tok) : list Lexer.kind :=
    match t with
    | TA a => [atom_kind a]
    | TS s _ => [skind s]
    | TAlias n => [Lexer.KIdent n; Lexer.KControl 61]
    | TPipe => [Lexer.KControl 124]
    | TArrow => [arrow]
    | _ => []
    end.

  (* ---- back: lexer kinds -> formatter tokens.  [sym_of] reads a control / operator kind by its spelling. *)
  Variable sym_of : Lexer.kind -> option tok.
  Definition is_eq_ctrl (k : Lexer.kind) : bool := match k with Lexer.KControl c => c =? 61 | _ => false end.
  Definition opkind (k : Lexer.kind) : bool := match k with Lexer.KControl _ | Lexer.KOp _ => true | _ => false end.
  Definition kind_tok (k : Lexer.kind) : option tok :=
    match k with
    | Lexer.KIdent w => Some (TA (AIdent [w]))
    | Lexer.KLiteral (Lexer.LBool b) => Some (TA (ALit (LBool b)))
    | Lexer.KLiteral Lexer.LNull => Some (TA (ALit LNull))
    | Lexer.KLiteral (Lexer.LInt n) => Some (TA (ALit (LInt (Z.of_N n))))
    | Lexer.KLiteral (Lexer.LString s) => Some (TA (ALit (LStr s)))
    | Lexer.KParam s => Some (TA (AParam s))
    | Lexer.KControl _ | Lexer.KOp _ => sym_of k
    | _ => None
    end.
  Definition cons_tok (t : option tok) (r : option (list tok)) : option (list tok) :=
    match t, r with Some t, Some r => Some (t :: r) | _, _ => None end.
  (* an identifier directly followed by the control `=` is an alias (parser: ident_part().then_ignore(ctrl('='))) *)
  Fixpoint untok (ks : list Lexer.kind) : option (list tok) :=
    match ks with
    | [] => Some []
    | k :: r =>
      match k, r with
      | Lexer.KIdent w, k2 :: r2 => if is_eq_ctrl k2 then cons_tok (Some (TAlias w)) (untok r2) else cons_tok (kind_tok k) (untok r)
      | _, _ => cons_tok (kind_tok k) (untok r)
      end
    end.

  (* the obligation on the tables: every operator spelling is read back as itself, `=>` and `|` as themselves, and none
     of them is the control `=` *)
  Definition back_ok : bool :=
    forallb (fun s => match sym_of (skind s) with Some (TS s' false) => Nat.eqb s' s | _ => false end
                      && negb (is_eq_ctrl (skind s)) && opkind (skind s)) (seq 0 nsym)
    && match sym_of arrow with Some TArrow => true | _ => false end && negb (is_eq_ctrl arrow) && opkind arrow
    && match sym_of (Lexer.KControl 124) with Some TPipe => true | _ => false end.
End Fragment.

(* ------------------------------------------------------------------ operator spellings against the lexer tables *)
Section Symbols.
  Variable T : Lexer.tables.
  (* the kind a one- or two-character spelling lexes to: a control character, or an operator of the table *)
  Definition sym_kind (txt : str) : option Lexer.kind :=
    match txt with
    | [c] => if Lexer.c_in c (Lexer.t_controls T) then Some (Lexer.KControl c) else None
    | [a; b] => match find (fun o => leqb (fst o) [a; b]) (Lexer.t_ops T) with Some o => Some (Lexer.KOp (fst (snd o))) | None => None end
    | _ => None
    end.
  Definition kind_or_start (o : option Lexer.kind) : Lexer.kind := match o with Some k => k | None => Lexer.KStart end.
  (* the spelling of a control / operator kind *)
  Definition kind_text (k : Lexer.kind) : option str :=
    match k with
    | Lexer.KControl c => Some [c]
    | Lexer.KOp v => match find (fun o => leqb (fst (snd o)) v) (Lexer.t_ops T) with Some o => Some (fst o) | None => None end
    | _ => None
    end.
  Fixpoint index_of (x : str) (l : list str) (i : nat) : option nat :=
    match l with [] => None | y :: t => if leqb x y then Some i else index_of x t (S i) end.
  Definition sym_tok (tab : list str) (k : Lexer.kind) : option tok :=
    match kind_text k with
    | Some txt => if leqb txt [61; 62] then Some TArrow else if leqb txt [124] then Some TPipe else
                  match index_of txt tab 0 with Some i => Some (TS i false) | None => None end
    | None => None
    end.
End Symbols.

(* C16: executable well-formedness of an RQ = the property's five clauses, with diagnostics.

     1. each column id is defined exactly once (by a table-instance column of a From / Join / Append
        TableRef or by a Compute)                                             -> DDupCid
        ... before any use: a use is only accepted when the id is *visible*, and only ids defined
        earlier in the pipeline can be visible                                 -> DUndefined / DNotVisible
     2. every id used in a transform, sort, partition, window or expression is visible at that point of
        its pipeline (DNotVisible: defined in this relation; DForeign: defined only in another one).  Visibility: From and Join add their instance columns, Compute adds its id, Select cs
        narrows to cs, Aggregate narrows to partition ++ compute, Append adds nothing (its bottom columns
        are defined but never addressable), a Loop body starts from what is visible at the Loop and what it
        defines or narrows does not escape it                                  -> DNotVisible
     3. every table id referenced is declared earlier in the table list (the main relation may refer to
        every table); table ids are declared once                              -> DTidUndeclared / DDupTid
     4. every pipeline starts with From                                        -> DNoFrom
     5. ... and ends with a Select whose arity equals the relation's declared columns -> DNoSelect / DArity

   [rq_diags] returns every violated clause with the table position [w] (index in the table list; the main
   relation has index = number of tables), the use site and the id; [rq_wf q] = no diagnostic.
   [rq_wf_lax] tolerates exactly one kind of diagnostic: a *carried sort* (Take.sort / Window.sort) naming an id
   that is defined in the same relation but not visible there -- the class of known finding C16-F1; the back-end
   lookups are still total for it (Proofs/RqWfProofs.v).
   Also here: the lookups a back end performs on an RQ (sql/pq/context.rs: column_decls[&cid],
   table_decls.get(tid)), as [lookup_cid] / [lookup_tid] over the same data. *)
From Coq Require Import List NArith Bool.
From PV Require Import Lib.ListX Model.Rq.
Import ListNotations.
Local Open Scope N_scope.

Inductive site :=
| SCompute | SWinFrame | SWinPartition | SWinSort | SSelect | SFilter | SAggPartition | SAggCompute
| SSort | STakeRange | STakePartition | STakeSort | SJoinFilter | SRelArg.

Inductive diag :=
| DDupCid (c : cid)
| DDupTid (t : tid)
| DUndefined (w : N) (s : site) (c : cid)
| DNotVisible (w : N) (s : site) (c : cid)   (* defined in this relation, but not visible at the use *)
| DForeign (w : N) (s : site) (c : cid)      (* defined, but only inside another relation's pipeline *)
| DTidUndeclared (w : N) (t : tid)
| DNoFrom (w : N)
| DNoSelect (w : N)
| DArity (w n m : N).

Section Check.
  Variable defs : list cid.     (* all_defs of the whole query *)
  Variable ldefs : list cid.    (* the ids defined inside the relation being checked *)
  Variable w : N.               (* position of the relation being checked *)
  Variable decl : list tid.     (* table ids declared before this relation *)

  Definition check_use (vis : list cid) (s : site) (c : cid) : list diag :=
    if memN c vis then []
    else [if memN c defs then (if memN c ldefs then DNotVisible w s c else DForeign w s c) else DUndefined w s c].

  Definition check_uses (vis : list cid) (s : site) (cs : list cid) : list diag :=
    flat_map (check_use vis s) cs.

  Definition check_tid (t : tid) : list diag :=
    if memN t decl then [] else [DTidUndeclared w t].

  Definition window_diags (vis : list cid) (ow : option window) : list diag :=
    match ow with
    | None => []
    | Some x => check_uses vis SWinFrame (range_cids (w_range x))
                ++ check_uses vis SWinPartition (w_partition x)
                ++ check_uses vis SWinSort (sorts_cids (w_sort x))
    end.

  (* diagnostics of one transform and the visible ids after it *)
  Fixpoint transform_diags (vis : list cid) (t : transform) : list diag * list cid :=
    match t with
    | TFrom r => (check_tid (tr_source r), vis ++ tref_cids r)
    | TCompute id e ow _ => (check_uses vis SCompute (expr_cids e) ++ window_diags vis ow, vis ++ [id])
    | TSelect cs => (check_uses vis SSelect cs, cs)
    | TFilter e => (check_uses vis SFilter (expr_cids e), vis)
    | TAggregate p c => (check_uses vis SAggPartition p ++ check_uses vis SAggCompute c, p ++ c)
    | TSort s => (check_uses vis SSort (sorts_cids s), vis)
    | TTake r p s => (check_uses vis STakeRange (range_cids r) ++ check_uses vis STakePartition p
                      ++ check_uses vis STakeSort (sorts_cids s), vis)
    | TJoin _ r f => let vis' := vis ++ tref_cids r in
                     (check_tid (tr_source r) ++ check_uses vis' SJoinFilter (expr_cids f), vis')
    | TAppend r => (check_tid (tr_source r), vis)
    | TLoop p => ((fix go (v : list cid) (l : list transform) : list diag :=
                     match l with
                     | [] => []
                     | a :: l' => let dv := transform_diags v a in fst dv ++ go (snd dv) l'
                     end) vis p, vis)
    end.

  Fixpoint pipeline_diags (vis : list cid) (p : list transform) : list diag :=
    match p with
    | [] => []
    | a :: p' => let dv := transform_diags vis a in fst dv ++ pipeline_diags (snd dv) p'
    end.

  Definition starts_with_from (p : list transform) : list diag :=
    match p with TFrom _ :: _ => [] | _ => [DNoFrom w] end.

  Definition ends_with_select (p : list transform) (cols : list relcol) : list diag :=
    match last (map Some p) None with
    | Some (TSelect cs) =>
        if N.eqb (N.of_nat (length cs)) (N.of_nat (length cols)) then []
        else [DArity w (N.of_nat (length cs)) (N.of_nat (length cols))]
    | _ => [DNoSelect w]
    end.

  Definition relation_diags (r : relation) : list diag :=
    match r_kind r with
    | KPipeline p => pipeline_diags [] p ++ starts_with_from p ++ ends_with_select p (r_columns r)
    | KSString items => check_uses [] SRelArg (exprs_cids items)
    | KBuiltIn _ args => check_uses [] SRelArg (exprs_cids args)
    | KExternRef _ | KExternParam _ | KLiteral _ _ => []
    end.
End Check.

Fixpoint tables_diags (defs : list cid) (i : N) (decl : list tid) (ts : list table_decl) : list diag :=
  match ts with
  | [] => []
  | t :: ts' => relation_diags defs (relation_defs (t_relation t)) i decl (t_relation t)
                ++ tables_diags defs (i + 1) (decl ++ [t_id t]) ts'
  end.

Definition table_ids (q : rq) : list tid := map t_id (q_tables q).

Definition rq_diags (q : rq) : list diag :=
  let defs := all_defs q in
  map DDupCid (dups defs)
  ++ map DDupTid (dups (table_ids q))
  ++ tables_diags defs 0 [] (q_tables q)
  ++ relation_diags defs (relation_defs (q_relation q)) (N.of_nat (length (q_tables q))) (table_ids q) (q_relation q).

Definition rq_wf (q : rq) : bool := match rq_diags q with [] => true | _ => false end.

(* the one relaxation (known finding C16-F1): a carried sort naming an id of the same relation that is no longer
   visible.  A carried sort naming an id of ANOTHER relation (DForeign; finding C16-F2, fixed by 8f24a64) is not tolerated. *)
Definition lax_diag (d : diag) : bool :=
  match d with
  | DNotVisible _ STakeSort _ | DNotVisible _ SWinSort _ => true
  | _ => false
  end.

Definition rq_wf_lax (q : rq) : bool := forallb lax_diag (rq_diags q).

(* ---------------------------------------------------------------- what a back end looks up *)

Inductive col_decl :=
| CRelCol (r : table_ref) (rc : relcol)                   (* ColumnDecl::RelationColumn *)
| CCompute (e : expr) (w : option window) (agg : bool).   (* ColumnDecl::Compute *)

Definition tref_decls (r : table_ref) : list (cid * col_decl) :=
  map (fun rc => (snd rc, CRelCol r (fst rc))) (tr_columns r).

Fixpoint transform_decls (t : transform) : list (cid * col_decl) :=
  match t with
  | TFrom r | TAppend r => tref_decls r
  | TJoin _ r _ => tref_decls r
  | TCompute id e ow agg => [(id, CCompute e ow agg)]
  | TLoop p => (fix go (l : list transform) : list (cid * col_decl) :=
                  match l with [] => [] | a :: l' => transform_decls a ++ go l' end) p
  | _ => []
  end.

Definition relation_decls (r : relation) : list (cid * col_decl) :=
  match r_kind r with KPipeline p => flat_map transform_decls p | _ => [] end.

Definition all_decls (q : rq) : list (cid * col_decl) :=
  flat_map (fun t => relation_decls (t_relation t)) (q_tables q) ++ relation_decls (q_relation q).

(* AnchorContext.column_decls[&cid] *)
Definition lookup_cid (q : rq) (c : cid) : option col_decl :=
  option_map snd (find (fun p => N.eqb (fst p) c) (all_decls q)).

(* AnchorContext.table_decls.get(tid) *)
Definition lookup_tid (q : rq) (t : tid) : option table_decl :=
  find (fun d => N.eqb (t_id d) t) (q_tables q).

Definition window_cids (ow : option window) : list cid :=
  match ow with
  | None => []
  | Some x => range_cids (w_range x) ++ w_partition x ++ sorts_cids (w_sort x)
  end.

Fixpoint transform_uses (t : transform) : list cid :=
  match t with
  | TFrom _ | TAppend _ => []
  | TCompute _ e ow _ => expr_cids e ++ window_cids ow
  | TSelect cs => cs
  | TFilter e => expr_cids e
  | TAggregate p c => p ++ c
  | TSort s => sorts_cids s
  | TTake r p s => range_cids r ++ p ++ sorts_cids s
  | TJoin _ _ f => expr_cids f
  | TLoop p => (fix go (l : list transform) : list cid :=
                  match l with [] => [] | a :: l' => transform_uses a ++ go l' end) p
  end.

Fixpoint transform_trefs (t : transform) : list tid :=
  match t with
  | TFrom r | TAppend r => [tr_source r]
  | TJoin _ r _ => [tr_source r]
  | TLoop p => (fix go (l : list transform) : list tid :=
                  match l with [] => [] | a :: l' => transform_trefs a ++ go l' end) p
  | _ => []
  end.

Definition relation_uses (r : relation) : list cid :=
  match r_kind r with
  | KPipeline p => flat_map transform_uses p
  | KSString items => exprs_cids items
  | KBuiltIn _ args => exprs_cids args
  | _ => []
  end.

Definition relation_trefs (r : relation) : list tid :=
  match r_kind r with KPipeline p => flat_map transform_trefs p | _ => [] end.

Definition used_cids (q : rq) : list cid :=
  flat_map (fun t => relation_uses (t_relation t)) (q_tables q) ++ relation_uses (q_relation q).

Definition used_tids (q : rq) : list tid :=
  flat_map (fun t => relation_trefs (t_relation t)) (q_tables q) ++ relation_trefs (q_relation q).

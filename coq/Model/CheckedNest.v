(* C12: nesting is unbounded in the input length (the logic half of the stack-exhaustion finding F8):
   a source of 2d+1 characters has bracket depth d; GenSites shows no depth guard between the parser
   and lowering (no site kind for it exists), the harness exhibits the abort.  Definitions only. *)
From Coq Require Import List NArith Arith.
Import ListNotations.

(* maximal nesting of ( ) in a text *)
Fixpoint depth_go (s : list N) (cur best : nat) : nat :=
  match s with
  | [] => best
  | c :: t =>
      if N.eqb c 40 then depth_go t (S cur) (Nat.max best (S cur))
      else if N.eqb c 41 then depth_go t (Nat.pred cur) best
      else depth_go t cur best
  end.
Definition bracket_depth (s : list N) : nat := depth_go s 0 0.

(* "(((...1...)))" *)
Definition nest (d : nat) : list N := repeat 40%N d ++ [49%N] ++ repeat 41%N d.

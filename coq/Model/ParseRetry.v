(* C12 (findings C12-H3 / C12-H4): why prql_to_pl takes exponential time on nested named arguments.
   An executable ordered-choice (backtracking, no memoisation -- chumsky's semantics) parser for the fragment of
   prqlc-parser/src/parser/expr.rs that the inputs `f x:(f x:( .. 1 .. ))` exercise:
     nested_expr = lambda_func(expr).or(func_call(expr))
     lambda_func = param.repeated() then `->` then expr        param = ident [`:` expr]          (the `plain` alternative)
     func_call   = expr then (named_arg.or(positional_arg)).repeated()      named_arg = ident `:` expr
     expr/term   = literal | ident | `(` nested_expr `)`
   The result of every function is (what is left of the input | failure, number of nested_expr invocations).
   Recursion is by fuel (one unit per nonterminal).  Executable definitions only. *)
From Coq Require Import List Arith.
Import ListNotations.

Inductive tok := TOne | TIdent | TColon | TLParen | TRParen | TArrow.
Inductive nt := NExpr | NNested | NLambda | NParams | NCall | NArgs.

Definition is_arrow (ts : list tok) : option (list tok) := match ts with TArrow :: r => Some r | _ => None end.

Fixpoint p (fuel : nat) (x : nt) (ts : list tok) : option (list tok) * nat :=
  match fuel with
  | O => (None, 0)
  | S k =>
    match x with
    | NExpr =>
        match ts with
        | TOne :: r => (Some r, 0)
        | TIdent :: r => (Some r, 0)
        | TLParen :: r =>
            match p k NNested r with
            | (Some (TRParen :: r'), c) => (Some r', c)
            | (_, c) => (None, c)
            end
        | _ => (None, 0)
        end
    | NNested =>
        (* lambda_func(expr).or(func_call(expr)): the second alternative starts again at the same position *)
        match p k NLambda ts with
        | (Some r, c1) => (Some r, 1 + c1)
        | (None, c1) => match p k NCall ts with (o, c2) => (o, 1 + c1 + c2) end
        end
    | NLambda =>
        match p k NParams ts with
        | (Some r, c) => match is_arrow r with
                         | Some r' => match p k NExpr r' with (o, c') => (o, c + c') end
                         | None => (None, c)
                         end
        | (None, c) => (None, c)
        end
    | NParams =>
        (* param.repeated(): param = ident then (`:` expr).or_not() *)
        match ts with
        | TIdent :: TColon :: r =>
            match p k NExpr r with
            | (Some r', c) => match p k NParams r' with (o, c') => (o, c + c') end
            | (None, c) => (Some (TColon :: r), c)          (* the default did not parse: the parameter is the bare ident *)
            end
        | TIdent :: r => p k NParams r
        | _ => (Some ts, 0)
        end
    | NCall =>
        match p k NExpr ts with
        | (Some r, c) => match p k NArgs r with (o, c') => (o, c + c') end
        | (None, c) => (None, c)
        end
    | NArgs =>
        (* (named_arg.or(positional_arg)).repeated() *)
        match ts with
        | TIdent :: TColon :: r =>
            match p k NExpr r with
            | (Some r', c) => match p k NArgs r' with (o, c') => (o, c + c') end
            | (None, c) => (Some (TColon :: r), c)          (* positional `ident`, then nothing parses at `:` *)
            end
        | _ =>
            match p k NExpr ts with
            | (Some r', c) => match p k NArgs r' with (o, c') => (o, c + c') end
            | (None, c) => (Some ts, c)
            end
        end
    end
  end.

(* the tokens of  f x:( f x:( .. 1 .. ) )  with n named arguments nested *)
Fixpoint nested_named (n : nat) : list tok :=
  match n with
  | O => [TOne]
  | S m => TIdent :: TIdent :: TColon :: TLParen :: nested_named m ++ [TRParen]
  end.

(* the closed form of the number of nested_expr invocations *)
Fixpoint calls (n : nat) : nat := match n with O => 1 | S m => 2 * calls m + 1 end.

(* C12: the width arithmetic of the formatter (prqlc/src/codegen/mod.rs), as repaired by commits c8b3817
   ("... saturates its width arithmetic"; finding C12-N7) and b4fb037 ("the formatter's indentation arithmetic
   saturates instead of overflowing u16 at 32768 nesting levels"; finding C12-N12): WriteOpt::consume_width /
   reset_line and the widening loop of WriteSource::write_or_expand, written against the u16 primitives of
   Model/Checked.v.
   `tab` is the constant "  " of WriteOpt::default() (no other value is constructed in library code), so
   `self.tab.len() as u16` = 2.  `write` itself (the layout of a node) is NOT modelled here: the loop is stated
   over an arbitrary `write`.  Executable definitions only; lemmas in Proofs/WidthArithProofs.v. *)
From Coq Require Import List ZArith Bool.
From PV Require Import Model.Checked.
Import ListNotations.
Local Open Scope Z_scope.

(* the fields of WriteOpt the arithmetic reads and writes *)
Record wopt := WOpt { max_width : Z; rem_width : Z; indent : Z }.
Definition tab_len : Z := 2.
Definition default_opt : wopt := WOpt 50 50 0.          (* WriteOpt::default(): max_width 50, rem_width 50, indent 0 *)

(* fn consume_width(&mut self, width: usize) -> Option<()> {
       if self.max_width == u16::MAX { return Some(()); }
       let width = u16::try_from(width).ok()?;
       self.rem_width = self.rem_width.checked_sub(width)?;  Some(()) } *)
Definition consume_width (o : wopt) (width : Z) : option wopt :=
  if max_width o =? u16_max then Some o
  else match try_from16 width with
       | None => None
       | Some w => match checked_sub16 (rem_width o) w with
                   | None => None
                   | Some r => Some (WOpt (max_width o) r (indent o))
                   end
       end.

(* fn reset_line(&mut self) -> Option<()> {
       let ident = (self.tab.len() as u16).saturating_mul(self.indent);      -- saturating since b4fb037
       self.rem_width = self.max_width.checked_sub(ident)?;  Some(()) }
   (`out` is kept as the result type so that "never panics" stays a statement about the model, not about its type) *)
Definition reset_line (o : wopt) : out (option wopt) :=
  let ident := sat_mul16 tab_len (indent o) in
  Ret (match checked_sub16 (max_width o) ident with
       | Some r => Some (WOpt (max_width o) r (indent o))
       | None => None
       end).

(* opt.indent = opt.indent.saturating_add(1) / saturating_sub(1) around a nested layout (b4fb037; three places) *)
Definition indent_in (o : wopt) : wopt := WOpt (max_width o) (rem_width o) (sat_add16 (indent o) 1).
Definition indent_out (o : wopt) : wopt := WOpt (max_width o) (rem_width o) (Z.max 0 (indent o - 1)).

(* the else-branch of write_or_expand:
       opt.max_width = opt.max_width.saturating_add(opt.max_width / 2);
       opt.reset_line();                  -- the Option is dropped: on None rem_width keeps its value *)
Definition widen_width (w : Z) : Z := sat_add16 w (w / 2).
Definition widen (o : wopt) : out wopt :=
  let o' := WOpt (widen_width (max_width o)) (rem_width o) (indent o) in
  bind (reset_line o') (fun r => Ret (match r with Some o'' => o'' | None => o' end)).

(* fn write_or_expand(&self, mut opt: WriteOpt) -> String {
       loop { if let Some(s) = self.write(opt.clone()) { return s; } else { <widen> } } }
   fuel = number of calls of `write`; Ret None = the fuel ran out (the Rust loop would still be running) *)
Section Expand.
  Variable T : Type.
  Variable write : wopt -> option T.
  Fixpoint expand (fuel : nat) (o : wopt) : out (option T) :=
    match fuel with
    | O => Ret None
    | S f => match write o with
             | Some s => Ret (Some s)
             | None => bind (widen o) (expand f)
             end
    end.
End Expand.
Arguments expand {T} write fuel o.

(* the width after n widenings, starting from w *)
Fixpoint iterw (n : nat) (w : Z) : Z :=
  match n with O => w | S k => widen_width (iterw k w) end.

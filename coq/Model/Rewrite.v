(* Models behind the C06 rewrites that are not about expressions:
   (1) let-bound tables: table expressions with variables, nested pipelines in append / join, and
       substitution of a variable by its definition (inlining);
   (2) module trees: declarations addressed by a path; mirrors semantic/module.rs Module::insert /
       Module::get (HashMap per module = association list with replace-on-insert; `or_default` creates
       missing modules on the way; LayeredModules is not modelled);
   (3) helpers for the identity transforms: dropping qualifiers, a decidable "keys order this relation
       totally" check.
   Definitions only. *)
From Coq Require Import List ZArith QArith NArith Bool.
From PV Require Import Model.Rel.
Import ListNotations.

(* ---- (1) table expressions ---- *)
Inductive texp :=
| TBase (r : rel)                       (* `from t`: a stored relation *)
| TVar (x : name)                       (* `from x` / a reference to a let-table *)
| TApply (src : texp) (st : tstep)      (* src | st *)
with tstep :=
| SPlain (t : transform)
| SAppend (b : texp)                    (* append (pipeline) / append x *)
| SJoin (s : side) (alias : name) (ucols : list name) (u : texp) (on : expr).

Definition tenv := list (name * rel).
Definition tget (env : tenv) (x : name) : rel :=
  match find (fun b : name * rel => N.eqb (fst b) x) env with Some b => snd b | None => [] end.

Fixpoint tsem (env : tenv) (e : texp) : rel :=
  match e with
  | TBase r => r
  | TVar x => tget env x
  | TApply src st => apply (tstep_sem env st) (tsem env src)
  end
with tstep_sem (env : tenv) (st : tstep) : transform :=
  match st with
  | SPlain t => t
  | SAppend b => TAppend (tsem env b)
  | SJoin s al uc u on => TJoin s al uc (tsem env u) on
  end.

(* replace every reference to x by its definition d *)
Fixpoint tsubst (x : name) (d : texp) (e : texp) : texp :=
  match e with
  | TBase r => TBase r
  | TVar y => if N.eqb y x then d else TVar y
  | TApply src st => TApply (tsubst x d src) (tstep_subst x d st)
  end
with tstep_subst (x : name) (d : texp) (st : tstep) : tstep :=
  match st with
  | SPlain t => SPlain t
  | SAppend b => SAppend (tsubst x d b)
  | SJoin s al uc u on => SJoin s al uc (tsubst x d u) on
  end.

Definition pipeline (src : texp) (ts : list transform) : texp :=
  fold_left (fun e t => TApply e (SPlain t)) ts src.

(* `let x = d` in front of a program *)
Definition tlet (env : tenv) (x : name) (d : texp) : tenv := (x, tsem env d) :: env.

(* ---- (2) module trees ---- *)
Inductive decl (A : Type) : Type :=
| DVal (a : A)
| DMod (m : list (name * decl A)).
Arguments DVal {A} a.
Arguments DMod {A} m.
Definition module (A : Type) := list (name * decl A).

Definition find_name {B : Type} (m : list (name * B)) (n : name) : option B :=
  match find (fun b : name * B => N.eqb (fst b) n) m with Some b => Some (snd b) | None => None end.

Fixpoint set_name {B : Type} (m : list (name * B)) (n : name) (d : B) : list (name * B) :=
  match m with
  | [] => [(n, d)]
  | (k, v) :: t => if N.eqb k n then (k, d) :: t else (k, v) :: set_name t n d
  end.

(* Module::get with a fully qualified ident (path, name) *)
Fixpoint mget {A : Type} (m : module A) (path : list name) (n : name) : option (decl A) :=
  match path with
  | [] => find_name m n
  | p :: rest => match find_name m p with Some (DMod inner) => mget inner rest n | _ => None end
  end.

(* Module::insert: walks the path, creating empty modules where the entry is missing; fails on a non-module *)
Fixpoint minsert {A : Type} (m : module A) (path : list name) (n : name) (d : decl A) : option (module A) :=
  match path with
  | [] => Some (set_name m n d)
  | p :: rest =>
      match find_name m p with
      | Some (DMod inner) => match minsert inner rest n d with Some i => Some (set_name m p (DMod i)) | None => None end
      | Some (DVal _) => None
      | None => match minsert [] rest n d with Some i => Some (set_name m p (DMod i)) | None => None end
      end
  end.

(* ---- (3) identity transforms ---- *)
Definition unq (r : row) : row := map (fun c : col => match c with (_, n, v) => (None, n, v) end) r.
Definition col_name (c : col) : option name := match c with (_, n, _) => n end.
Definition all_cols (ns : list name) : list (option name * expr) := map (fun n => (None, ECol None n)) ns.

Definition q_same (a b : Q) : bool := Z.eqb (Qnum a) (Qnum b) && Pos.eqb (Qden a) (Qden b).
Fixpoint str_same (a b : list N) : bool :=
  match a, b with [], [] => true | x :: a', y :: b' => N.eqb x y && str_same a' b' | _, _ => false end.
Definition val_same (a b : val) : bool :=
  match a, b with
  | VNull, VNull => true
  | VInt x, VInt y => Z.eqb x y
  | VRat p, VRat q => q_same p q
  | VStr s, VStr t => str_same s t
  | _, _ => false
  end.
Definition oname_same (a b : option name) : bool :=
  match a, b with None, None => true | Some x, Some y => N.eqb x y | _, _ => false end.
Definition col_same (a b : col) : bool :=
  match a, b with (q1, n1, v1), (q2, n2, v2) => oname_same q1 q2 && oname_same n1 n2 && val_same v1 v2 end.
Fixpoint row_same (a b : row) : bool :=
  match a, b with [], [] => true | x :: a', y :: b' => col_same x y && row_same a' b' | _, _ => false end.

(* le is a total order WITHOUT ties on the rows of l (ties only between identical rows) *)
Definition ord_ok (le : row -> row -> bool) (l : rel) : bool :=
  forallb (fun x => forallb (fun y =>
      (le x y || le y x)
      && (negb (le x y && le y x) || row_same x y)
      && forallb (fun z => negb (le x y && le y z) || le x z) l) l) l.

(* C17: transport of correspondence cases into Coq as ONE primitive array of integers per batch.
   Writing a batch as a Gallina list-of-N literal costs ~1 ms per case in elaboration (implicit arguments of every
   cons / pair), 13 times what evaluating the model on it costs; a literal [| ... |] of primitive 63-bit integers is
   parsed directly.  This file is the deserialiser: array -> list N -> list of (source, expected answer) in the very
   types Model/LexerExec.v compares ([disagree]).  It is comparison machinery (not used by any theorem): the python
   serialiser is vplib/props/c17_lib.py [enc_case]; every run checks the pair with canaries (a batch whose expected
   answers are deliberately wrong must be reported at exactly those indices) and re-derives reported differences
   through the independent printing path ([run], parsed by python).

   Wire format (all numbers < 2^63; a batch is [number of cases ; case ...], written as LEB128 bytes, 7 bytes per array cell,
   cell 0 = number of bytes):
     case   := str ; 0                       (implementation rejected)
             | str ; 1 ; n ; token^n         (implementation accepted with n tokens)
     str    := len ; code point^len
     token  := kind ; start ; end
     kind   := 0 (NewLine) | 1 str (Ident) | 2 str (Keyword) | 3 lit (Literal) | 4 str (Param) | 5 b b (Range)
             | 6 c str (Interpolation) | 7 c (Control) | 8 str (operator variant) | 9 (Annotate) | 10 str (Comment)
             | 11 str (DocComment) | 12 n (b str)^n (LineWrap) | 13 (Start)
     lit    := 0 (Null) | 1 n (Integer) | 3 b (Boolean) | 4 str (String) | 5 str (RawString) | 6 str (Date)
             | 7 str (Time) | 8 str (Timestamp) | 9 n str (ValueAndUnit)       (floats never travel this way) *)
From Coq Require Import List NArith ZArith Bool Uint63 PArray.
From PV Require Import Lib.ListX Model.Lexer Model.LexerExec.
Import ListNotations.
Local Open Scope N_scope.

Definition int_to_N (i : int) : N := Z.to_N (Uint63.to_Z i).

(* ---- layer 1: array of 63-bit integers -> bytes.  Cell 0 is the number of bytes; every further cell carries 7 bytes,
   least significant first (Coq's parser costs ~20 us per integer token whatever its size, so small values are packed). *)
Definition unpack7 (i : int) (acc : list N) : list N :=
  let n0 := int_to_N i in let n1 := N.shiftr n0 8 in let n2 := N.shiftr n1 8 in let n3 := N.shiftr n2 8 in
  let n4 := N.shiftr n3 8 in let n5 := N.shiftr n4 8 in let n6 := N.shiftr n5 8 in
  N.land n0 255 :: N.land n1 255 :: N.land n2 255 :: N.land n3 255 :: N.land n4 255 :: N.land n5 255 :: N.land n6 255 :: acc.
(* bytes of the cells 1 .. i-1 (i is carried as a primitive integer so that a step costs O(1)) *)
Fixpoint arr_bytes (a : array int) (n : nat) (i : int) (acc : list N) : list N :=
  match n with
  | O => acc
  | S k => let j := Uint63.sub i 1%uint63 in arr_bytes a k j (unpack7 (PArray.get a j) acc)
  end.
Definition arr_to_bytes (a : array int) : list N :=
  let len := PArray.length a in
  let cells := Z.to_nat (Uint63.to_Z len) in
  firstn (N.to_nat (int_to_N (PArray.get a 0%uint63))) (arr_bytes a (Nat.pred cells) len []).

(* ---- layer 2: bytes -> numbers (LEB128: 7 bits per byte, least significant group first, bit 7 = "more follows") *)
Fixpoint unvar (l : list N) (sh acc : N) : list N :=
  match l with
  | [] => []
  | b :: r => if b <? 128 then (acc + N.shiftl b sh) :: unvar r 0 0
              else unvar r (sh + 7) (acc + N.shiftl (b - 128) sh)
  end.
Definition arr_to_list (a : array int) : list N := unvar (arr_to_bytes a) 0 0.

(* ---- layer 3: numbers -> cases *)
Definition dec (A : Type) := list N -> option (A * list N).

Fixpoint d_take (k : nat) (l : list N) : option (list N * list N) :=
  match k with
  | O => Some ([], l)
  | S k' => match l with
            | x :: r => match d_take k' r with Some (a, r') => Some (x :: a, r') | None => None end
            | [] => None
            end
  end.
Definition d_num : dec N := fun l => match l with x :: r => Some (x, r) | [] => None end.
Definition d_bool : dec bool := fun l => match l with x :: r => Some (negb (x =? 0), r) | [] => None end.
Definition d_str : dec str := fun l => match l with n :: r => d_take (N.to_nat n) r | [] => None end.

Definition bind {A B} (p : dec A) (f : A -> dec B) : dec B :=
  fun l => match p l with Some (a, r) => f a r | None => None end.
Definition ret {A} (a : A) : dec A := fun l => Some (a, l).
Definition fail {A} : dec A := fun _ => None.

Fixpoint d_rep {A} (p : dec A) (k : nat) : dec (list A) :=
  match k with
  | O => ret []
  | S k' => bind p (fun a => bind (d_rep p k') (fun r => ret (a :: r)))
  end.

Definition d_lit : dec lit :=
  bind d_num (fun t =>
    if t =? 0 then ret LNull
    else if t =? 1 then bind d_num (fun n => ret (LInt n))
    else if t =? 3 then bind d_bool (fun b => ret (LBool b))
    else if t =? 4 then bind d_str (fun s => ret (LString s))
    else if t =? 5 then bind d_str (fun s => ret (LRaw s))
    else if t =? 6 then bind d_str (fun s => ret (LDate s))
    else if t =? 7 then bind d_str (fun s => ret (LTime s))
    else if t =? 8 then bind d_str (fun s => ret (LTimestamp s))
    else if t =? 9 then bind d_num (fun n => bind d_str (fun u => ret (LVU n u)))
    else fail).

Definition d_wrapc : dec (bool * str) := bind d_bool (fun b => bind d_str (fun s => ret (b, s))).

Definition d_kind : dec kind :=
  bind d_num (fun t =>
    if t =? 0 then ret KNewLine
    else if t =? 1 then bind d_str (fun s => ret (KIdent s))
    else if t =? 2 then bind d_str (fun s => ret (KKeyword s))
    else if t =? 3 then bind d_lit (fun l => ret (KLiteral l))
    else if t =? 4 then bind d_str (fun s => ret (KParam s))
    else if t =? 5 then bind d_bool (fun a => bind d_bool (fun b => ret (KRange a b)))
    else if t =? 6 then bind d_num (fun c => bind d_str (fun s => ret (KInterp c s)))
    else if t =? 7 then bind d_num (fun c => ret (KControl c))
    else if t =? 8 then bind d_str (fun s => ret (KOp s))
    else if t =? 9 then ret KAnnotate
    else if t =? 10 then bind d_str (fun s => ret (KComment s))
    else if t =? 11 then bind d_str (fun s => ret (KDocComment s))
    else if t =? 12 then bind d_num (fun n => bind (d_rep d_wrapc (N.to_nat n)) (fun cs => ret (KLineWrap cs)))
    else if t =? 13 then ret KStart
    else fail).

Definition d_token : dec (kind * (N * N)) :=
  bind d_kind (fun k => bind d_num (fun a => bind d_num (fun b => ret (k, (a, b))))).

Definition d_case : dec (str * option (list (kind * (N * N)))) :=
  bind d_str (fun s => bind d_num (fun t =>
    if t =? 0 then ret (s, None)
    else if t =? 1 then bind d_num (fun n => bind (d_rep d_token (N.to_nat n)) (fun ts => ret (s, Some ts)))
    else fail)).

(* a batch = [number of cases] followed by the cases; the whole array must be consumed *)
Definition d_batch (l : list N) : option (list (str * option (list (kind * (N * N))))) :=
  match l with
  | n :: r => match d_rep d_case (N.to_nat n) r with Some (cs, []) => Some cs | _ => None end
  | [] => None
  end.

(* indices of the cases of the batch on which model and implementation differ; None = the batch does not decode *)
Definition disagree_arr (T : tables) (a : array int) : option (list N) :=
  match d_batch (arr_to_list a) with
  | Some cs => Some (disagree T 0 cs)
  | None => None
  end.
(* the decoded batch itself, printed back (used by the run-time self-test of the transport) *)
Definition decode_arr (a : array int) : option (list (str * option (list (kind * (N * N))))) := d_batch (arr_to_list a).

(* C17: transport of correspondence cases into Coq as ONE primitive array of integers per batch.
   Writing a batch as a Gallina list-of-N literal costs ~1 ms per case in elaboration (implicit arguments of every
   cons / pair), 13 times what evaluating the model on it costs; a literal [| ... |] of primitive 63-bit integers is
   parsed directly.  This file is the deserialiser: array -> list N -> list of (source, expected answer) in the very
   types Model/LexerExec.v compares ([disagree]).  It is comparison machinery (not used by any theorem): the python
   serialiser is vplib/props/c17_lib.py [enc_case]; every run checks the pair with canaries (a batch whose expected
   answers are deliberately wrong must be reported at exactly those indices) and re-derives reported differences
   through the independent printing path ([run], parsed by python).

   Wire format (all numbers < 2^63; a batch is a sequence of cases):
     case   := str ; 0                       (implementation rejected)
             | str ; 1 ; n ; token^n         (implementation accepted with n tokens)
     str    := len ; code point^len
     token  := kind ; start ; end
     kind   := 0 (NewLine) | 1 str (Ident) | 2 str (Keyword) | 3 lit (Literal) | 4 str (Param) | 5 b b (Range)
             | 6 c str (Interpolation) | 7 c (Control) | 8 str (operator variant) | 9 (Annotate) | 10 str (Comment)
             | 11 str (DocComment) | 12 n (b str)^n (LineWrap) | 13 (Start)
     lit    := 0 (Null) | 1 n (Integer) | 3 b (Boolean) | 4 str (String) | 5 str (RawString) | 6 str (Date)
             | 7 str (Time) | 8 str (Timestamp) | 9 n str (ValueAndUnit)       (floats never travel this way) *)
From Coq Require Import List NArith ZArith Bool Uint63 PArray.
From PV Require Import Lib.ListX Model.Lexer Model.LexerExec.
Import ListNotations.
Local Open Scope N_scope.

Definition int_to_N (i : int) : N := Z.to_N (Uint63.to_Z i).

(* the first [n] cells of the array, in order *)
Fixpoint arr_prefix (a : array int) (n : nat) (acc : list N) : list N :=
  match n with
  | O => acc
  | S k => arr_prefix a k (int_to_N (PArray.get a (Uint63.of_Z (Z.of_nat k))) :: acc)
  end.
Definition arr_to_list (a : array int) : list N :=
  arr_prefix a (Z.to_nat (Uint63.to_Z (PArray.length a))) [].

Definition dec (A : Type) := list N -> option (A * list N).

Fixpoint d_take (k : nat) (l : list N) : option (list N * list N) :=
  match k with
  | O => Some ([], l)
  | S k' => match l with
            | x :: r => match d_take k' r with Some (a, r') => Some (x :: a, r') | None => None end
            | [] => None
            end
  end.
Definition d_num : dec N := fun l => match l with x :: r => Some (x, r) | [] => None end.
Definition d_bool : dec bool := fun l => match l with x :: r => Some (negb (x =? 0), r) | [] => None end.
Definition d_str : dec str := fun l => match l with n :: r => d_take (N.to_nat n) r | [] => None end.

Definition bind {A B} (p : dec A) (f : A -> dec B) : dec B :=
  fun l => match p l with Some (a, r) => f a r | None => None end.
Definition ret {A} (a : A) : dec A := fun l => Some (a, l).
Definition fail {A} : dec A := fun _ => None.

Fixpoint d_rep {A} (p : dec A) (k : nat) : dec (list A) :=
  match k with
  | O => ret []
  | S k' => bind p (fun a => bind (d_rep p k') (fun r => ret (a :: r)))
  end.

Definition d_lit : dec lit :=
  bind d_num (fun t =>
    if t =? 0 then ret LNull
    else if t =? 1 then bind d_num (fun n => ret (LInt n))
    else if t =? 3 then bind d_bool (fun b => ret (LBool b))
    else if t =? 4 then bind d_str (fun s => ret (LString s))
    else if t =? 5 then bind d_str (fun s => ret (LRaw s))
    else if t =? 6 then bind d_str (fun s => ret (LDate s))
    else if t =? 7 then bind d_str (fun s => ret (LTime s))
    else if t =? 8 then bind d_str (fun s => ret (LTimestamp s))
    else if t =? 9 then bind d_num (fun n => bind d_str (fun u => ret (LVU n u)))
    else fail).

Definition d_wrapc : dec (bool * str) := bind d_bool (fun b => bind d_str (fun s => ret (b, s))).

Definition d_kind : dec kind :=
  bind d_num (fun t =>
    if t =? 0 then ret KNewLine
    else if t =? 1 then bind d_str (fun s => ret (KIdent s))
    else if t =? 2 then bind d_str (fun s => ret (KKeyword s))
    else if t =? 3 then bind d_lit (fun l => ret (KLiteral l))
    else if t =? 4 then bind d_str (fun s => ret (KParam s))
    else if t =? 5 then bind d_bool (fun a => bind d_bool (fun b => ret (KRange a b)))
    else if t =? 6 then bind d_num (fun c => bind d_str (fun s => ret (KInterp c s)))
    else if t =? 7 then bind d_num (fun c => ret (KControl c))
    else if t =? 8 then bind d_str (fun s => ret (KOp s))
    else if t =? 9 then ret KAnnotate
    else if t =? 10 then bind d_str (fun s => ret (KComment s))
    else if t =? 11 then bind d_str (fun s => ret (KDocComment s))
    else if t =? 12 then bind d_num (fun n => bind (d_rep d_wrapc (N.to_nat n)) (fun cs => ret (KLineWrap cs)))
    else if t =? 13 then ret KStart
    else fail).

Definition d_token : dec (kind * (N * N)) :=
  bind d_kind (fun k => bind d_num (fun a => bind d_num (fun b => ret (k, (a, b))))).

Definition d_case : dec (str * option (list (kind * (N * N)))) :=
  bind d_str (fun s => bind d_num (fun t =>
    if t =? 0 then ret (s, None)
    else if t =? 1 then bind d_num (fun n => bind (d_rep d_token (N.to_nat n)) (fun ts => ret (s, Some ts)))
    else fail)).

(* a batch = [number of cases] followed by the cases; the whole array must be consumed *)
Definition d_batch (l : list N) : option (list (str * option (list (kind * (N * N))))) :=
  match l with
  | n :: r => match d_rep d_case (N.to_nat n) r with Some (cs, []) => Some cs | _ => None end
  | [] => None
  end.

(* indices of the cases of the batch on which model and implementation differ; None = the batch does not decode *)
Definition disagree_arr (T : tables) (a : array int) : option (list N) :=
  match d_batch (arr_to_list a) with
  | Some cs => Some (disagree T 0 cs)
  | None => None
  end.
(* the decoded batch itself, printed back (used by the run-time self-test of the transport) *)
Definition decode_arr (a : array int) : option (list (str * option (list (kind * (N * N))))) := d_batch (arr_to_list a).

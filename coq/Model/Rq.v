(* C16: the relational query (RQ) as prqlc defines it, restricted to what matters for identification.
   Mirror of
     prqlc/prqlc/src/ir/rq/mod.rs        RelationalQuery, Relation, RelationKind, RelationColumn, TableDecl, TableRef
     prqlc/prqlc/src/ir/rq/transform.rs  Transform, Take, Compute, Window
     prqlc/prqlc/src/ir/rq/expr.rs       Expr, ExprKind
     prqlc/prqlc/src/ir/rq/ids.rs        CId, TId   (usize newtypes)
   Abstracted away (no identifiers inside): literal values, spans, sort directions' meaning, the text
   pieces of s-strings, QueryDef, prefer_cte.  A `Case` keeps its conditions and values as one flat list
   (c1, v1, c2, v2, ...), an s-string keeps only its interpolated expressions.
   vplib/rqcoq.py converts the implementation's RQ JSON into a term of type [rq] and fails loudly on any
   node kind that is not listed here.  Executable definitions only; proofs are in Proofs/RqWfProofs.v. *)
From Coq Require Import List NArith Bool.
From PV Require Import Lib.ListX.
Import ListNotations.
Local Open Scope N_scope.

Definition cid := N.
Definition tid := N.

Inductive relcol := RSingle (name : option str) | RWildcard.

Inductive ekind := KSStr | KCase | KOp (name : str) | KArray.

Inductive expr :=
| ERef (c : cid)                         (* ExprKind::ColumnRef *)
| ELit                                   (* ExprKind::Literal *)
| EParam                                 (* ExprKind::Param *)
| ENode (k : ekind) (args : list expr).  (* SString | Case | Operator{name,args} | Array *)

Inductive dir := Asc | Desc.
Inductive join_side := JInner | JLeft | JRight | JFull.
Inductive frame_kind := FRows | FRange.

Definition range := (option expr * option expr)%type.
Definition sorts := list (dir * cid).

Record table_ref := mkTRef {
  tr_source : tid;
  tr_columns : list (relcol * cid);
  tr_name : option str }.

Record window := mkWindow {
  w_kind : frame_kind;
  w_range : range;
  w_partition : list cid;
  w_sort : sorts }.

Inductive transform :=
| TFrom (r : table_ref)
| TCompute (id : cid) (e : expr) (w : option window) (is_aggregation : bool)
| TSelect (cs : list cid)
| TFilter (e : expr)
| TAggregate (partition compute : list cid)
| TSort (s : sorts)
| TTake (r : range) (partition : list cid) (s : sorts)
| TJoin (side : join_side) (w : table_ref) (filter : expr)
| TAppend (r : table_ref)
| TLoop (p : list transform).

Inductive relkind :=
| KExternRef (name : list str)           (* TableExternRef::LocalTable(Ident) *)
| KExternParam (name : str)              (* TableExternRef::Param *)
| KPipeline (p : list transform)
| KLiteral (columns : list str) (nrows : N)
| KSString (items : list expr)
| KBuiltIn (name : str) (args : list expr).

Record relation := mkRel { r_kind : relkind; r_columns : list relcol }.
Record table_decl := mkTable { t_id : tid; t_name : option str; t_relation : relation }.
Record rq := mkRq { q_tables : list table_decl; q_relation : relation }.

(* ---- identifiers occurring in the pieces ---- *)

Fixpoint expr_cids (e : expr) : list cid :=
  match e with
  | ERef c => [c]
  | ELit | EParam => []
  | ENode _ args => (fix go (l : list expr) : list cid :=
                       match l with [] => [] | a :: l' => expr_cids a ++ go l' end) args
  end.

Definition exprs_cids (l : list expr) : list cid := flat_map expr_cids l.

Definition oexpr_cids (e : option expr) : list cid :=
  match e with None => [] | Some e => expr_cids e end.

Definition range_cids (r : range) : list cid := oexpr_cids (fst r) ++ oexpr_cids (snd r).
Definition sorts_cids (s : sorts) : list cid := map snd s.
Definition tref_cids (r : table_ref) : list cid := map snd (tr_columns r).

(* the cids a transform defines: table-instance columns of From / Join / Append, or a Compute *)
Fixpoint transform_defs (t : transform) : list cid :=
  match t with
  | TFrom r | TAppend r => tref_cids r
  | TJoin _ r _ => tref_cids r
  | TCompute id _ _ _ => [id]
  | TLoop p => (fix go (l : list transform) : list cid :=
                  match l with [] => [] | a :: l' => transform_defs a ++ go l' end) p
  | _ => []
  end.

Definition pipeline_defs (p : list transform) : list cid := flat_map transform_defs p.

Definition relation_defs (r : relation) : list cid :=
  match r_kind r with KPipeline p => pipeline_defs p | _ => [] end.

Definition all_defs (q : rq) : list cid :=
  flat_map (fun t => relation_defs (t_relation t)) (q_tables q) ++ relation_defs (q_relation q).

Definition memN (x : N) (l : list N) : bool := existsb (N.eqb x) l.

(* every occurrence after the first, in order *)
Fixpoint dups_from (seen l : list N) : list N :=
  match l with
  | [] => []
  | x :: l' => if memN x seen then x :: dups_from seen l' else dups_from (x :: seen) l'
  end.
Definition dups (l : list N) : list N := dups_from [] l.

(* C05: the end of sql/pq/anchor.rs extract_atomic -- the decision to append a LIMITING SELECT.
     let output = redirect_cids(output, &atomic);                 // the columns the caller asked for, in the atomic pipeline's ids
     let select_cols = the Select of the atomic pipeline;         // what its SELECT list will contain
     if select_cols.iter().any(|c| !output.contains(c)) {         // columns added for other clauses (sort keys, window helpers)
         atomic.push(Select(select_cols));  return anchor_split(ctx, atomic, vec![Select(output)]);   // outer SELECT = output
     }
     atomic                                                       // SELECT list = select_cols
   Observed through verif:extract_atomic {output_redirected, select_cols, extra} and compared on every real call.
   Definitions only. *)
From Coq Require Import List Bool Arith.
From PV Require Import Model.Wildcards.
Import ListNotations.

Definition has_extra (output select_cols : list cid) : bool := existsb (fun c => negb (mem c output)) select_cols.

(* the ids of the SELECT list that closes the (possibly extended) atomic pipeline *)
Definition closing_select (output select_cols : list cid) : list cid :=
  if has_extra output select_cols then output else select_cols.

(* C17: the lexer tables of the current source tree (Gen/GenLexTables.v, regenerated on every run)
   packed into the record the model is generic in. *)
From Coq Require Import List NArith Bool.
From PV Require Import Lib.ListX Model.Lexer Gen.GenLexTables.
Import ListNotations.

Definition gen_tables : tables := {|
  t_token_order := GenLexTables.token_order;
  t_literal_order := GenLexTables.literal_order;
  t_keywords := GenLexTables.keywords;
  t_ops := GenLexTables.multi_ops;
  t_controls := GenLexTables.controls;
  t_end_chars := GenLexTables.end_chars;
  t_interp := GenLexTables.interp_prefix;
  t_units := GenLexTables.units;
  t_true := GenLexTables.true_word; t_false := GenLexTables.false_word; t_null := GenLexTables.null_word;
  t_escapes := GenLexTables.escapes;
  t_u_hex_max := GenLexTables.u_hex_max; t_x_hex_len := GenLexTables.x_hex_len;
  t_based := GenLexTables.based;
  t_date_digits := GenLexTables.date_digits; t_time_digits := GenLexTables.time_digits;
  t_tz_digits := GenLexTables.tz_digits; t_ms_max := GenLexTables.ms_max |}.

(* C16: boolean equality on the RQ type of Model/Rq.v (expr, window, table_ref, transform, relation, table_decl, rq).
   Used by the op-trace replay (Model/LowererTrace.v) to compare, inside Coq, what the Lowerer machine produces with
   what the implementation emitted.  Executable definitions only; [*_eqb a b = true -> a = b] is proved in
   Proofs/LowererTraceProofs.v, so a `true` is Leibniz equality of the two terms. *)
From Coq Require Import List NArith Bool.
From PV Require Import Lib.ListX Model.Rq.
Import ListNotations.
Local Open Scope N_scope.

Section ListEqb.
  Context {A : Type} (f : A -> A -> bool).
  Fixpoint list_eqb (l l' : list A) : bool :=
    match l, l' with
    | [], [] => true
    | x :: l1, y :: l2 => f x y && list_eqb l1 l2
    | _, _ => false
    end.
End ListEqb.

Definition option_eqb {A} (f : A -> A -> bool) (a b : option A) : bool :=
  match a, b with Some x, Some y => f x y | None, None => true | _, _ => false end.

Definition pair_eqb {A B} (f : A -> A -> bool) (g : B -> B -> bool) (a b : A * B) : bool :=
  f (fst a) (fst b) && g (snd a) (snd b).

Definition rc_eqb (a b : relcol) : bool :=
  match a, b with
  | RSingle x, RSingle y => option_eqb leqb x y
  | RWildcard, RWildcard => true
  | _, _ => false
  end.

Definition ekind_eqb (a b : ekind) : bool :=
  match a, b with
  | KSStr, KSStr | KCase, KCase | KArray, KArray => true
  | KOp x, KOp y => leqb x y
  | _, _ => false
  end.

Fixpoint expr_eqb (a b : expr) : bool :=
  match a, b with
  | ERef x, ERef y => N.eqb x y
  | ELit, ELit => true
  | EParam, EParam => true
  | ENode k l, ENode k' l' => ekind_eqb k k' && list_eqb expr_eqb l l'
  | _, _ => false
  end.

Definition dir_eqb (a b : dir) : bool :=
  match a, b with Asc, Asc | Desc, Desc => true | _, _ => false end.

Definition side_eqb (a b : join_side) : bool :=
  match a, b with JInner, JInner | JLeft, JLeft | JRight, JRight | JFull, JFull => true | _, _ => false end.

Definition fk_eqb (a b : frame_kind) : bool :=
  match a, b with FRows, FRows | FRange, FRange => true | _, _ => false end.

Definition range_eqb (a b : range) : bool := pair_eqb (option_eqb expr_eqb) (option_eqb expr_eqb) a b.
Definition sorts_eqb (a b : sorts) : bool := list_eqb (pair_eqb dir_eqb N.eqb) a b.
Definition cids_eqb (a b : list cid) : bool := list_eqb N.eqb a b.

Definition tref_eqb (a b : table_ref) : bool :=
  N.eqb (tr_source a) (tr_source b) && list_eqb (pair_eqb rc_eqb N.eqb) (tr_columns a) (tr_columns b)
  && option_eqb leqb (tr_name a) (tr_name b).

Definition window_eqb (a b : window) : bool :=
  fk_eqb (w_kind a) (w_kind b) && range_eqb (w_range a) (w_range b) && cids_eqb (w_partition a) (w_partition b)
  && sorts_eqb (w_sort a) (w_sort b).

Fixpoint transform_eqb (a b : transform) : bool :=
  match a, b with
  | TFrom r, TFrom r' => tref_eqb r r'
  | TCompute i e w g, TCompute i' e' w' g' => N.eqb i i' && expr_eqb e e' && option_eqb window_eqb w w' && Bool.eqb g g'
  | TSelect c, TSelect c' => cids_eqb c c'
  | TFilter e, TFilter e' => expr_eqb e e'
  | TAggregate p c, TAggregate p' c' => cids_eqb p p' && cids_eqb c c'
  | TSort s, TSort s' => sorts_eqb s s'
  | TTake r p s, TTake r' p' s' => range_eqb r r' && cids_eqb p p' && sorts_eqb s s'
  | TJoin sd r f, TJoin sd' r' f' => side_eqb sd sd' && tref_eqb r r' && expr_eqb f f'
  | TAppend r, TAppend r' => tref_eqb r r'
  | TLoop p, TLoop p' => list_eqb transform_eqb p p'
  | _, _ => false
  end.

Definition relkind_eqb (a b : relkind) : bool :=
  match a, b with
  | KExternRef n, KExternRef n' => list_eqb leqb n n'
  | KExternParam n, KExternParam n' => leqb n n'
  | KPipeline p, KPipeline p' => list_eqb transform_eqb p p'
  | KLiteral c n, KLiteral c' n' => list_eqb leqb c c' && N.eqb n n'
  | KSString i, KSString i' => list_eqb expr_eqb i i'
  | KBuiltIn n a, KBuiltIn n' a' => leqb n n' && list_eqb expr_eqb a a'
  | _, _ => false
  end.

Definition relation_eqb (a b : relation) : bool :=
  relkind_eqb (r_kind a) (r_kind b) && list_eqb rc_eqb (r_columns a) (r_columns b).

Definition table_eqb (a b : table_decl) : bool :=
  N.eqb (t_id a) (t_id b) && option_eqb leqb (t_name a) (t_name b) && relation_eqb (t_relation a) (t_relation b).

Definition rq_eqb (a b : rq) : bool :=
  list_eqb table_eqb (q_tables a) (q_tables b) && relation_eqb (q_relation a) (q_relation b).

(* C08 -- PRQL literal spellings -> values, and values -> SQL text.
   Re-statement of prqlc-parser/src/lexer/mod.rs  (multi_quoted_string, parse_escape_sequence,
   raw_string, interpolation + parser/interpolation.rs, number, parse_number_with_base, boolean, null,
   date_token) and of prqlc/src/sql/gen_expr.rs translate_literal.
   The escape table and the (prefix, base, max digits) rows of the based numbers are NOT written here:
   they are parameters, instantiated with Gen/GenLiteral.v (regenerated from the lexer source).
   Executable definitions only; validated against `prqlc::prql_to_tokens` (harness `lex`) and against
   `prqlc::compile` by vplib/props/c08.py.  Strings are lists of code points. *)
From Coq Require Import List NArith ZArith Bool.
From PV Require Import Lib.ListX Model.Escape Model.SqlLex Model.Interval.
Import ListNotations.
Local Open Scope N_scope.

(* ------------------------------------------------------------------ characters *)
Definition is_hex (c : N) : bool :=
  is_digit c || ((65 <=? c) && (c <=? 70)) || ((97 <=? c) && (c <=? 102)).
Definition hex_val (c : N) : N :=
  if is_digit c then c - 48 else if (97 <=? c) then c - 87 else c - 55.
Definition digit_val (base c : N) : option N :=
  let v := hex_val c in if is_hex c && (v <? base) then Some v else None.

Fixpoint assoc (c : N) (t : list (N * N)) : option N :=
  match t with [] => None | (k, v) :: t' => if c =? k then Some v else assoc c t' end.

(* value of a digit string in a base, most significant first *)
Fixpoint base_value_acc (base acc : N) (ds : str) : N :=
  match ds with [] => acc | c :: r => base_value_acc base (acc * base + hex_val c) r end.
Definition base_value (base : N) (ds : str) : N := base_value_acc base 0 ds.

(* Rust char::from_u32(..).unwrap_or('\u{FFFD}') *)
Definition char_from_u32 (v : N) : N :=
  if ((55296 <=? v) && (v <=? 57343)) || (1114111 <? v) then 65533 else v.

(* ------------------------------------------------------------------ escapes *)
(* up to n leading hex digits *)
Fixpoint take_hex (n : nat) (s : str) : str * str :=
  match n, s with
  | S n', c :: r => if is_hex c then let '(h, r') := take_hex n' r in (c :: h, r') else ([], s)
  | _, _ => ([], s)
  end.

(* parse_escape_sequence: s = the input just after the backslash *)
Definition parse_escape (tbl : list (N * N)) (s : str) : N * str :=
  match s with
  | [] => (92, [])                                     (* backslash at end of input *)
  | c :: r =>
      match assoc c tbl with
      | Some v => (v, r)
      | None =>
          if (c =? 117) && match r with b :: _ => b =? 123 | [] => false end then
            (* \u{ up to six hex digits, then an optional } *)
            let '(h, r') := take_hex 6 (tl r) in
            let r'' := match r' with e :: t => if e =? 125 then t else r' | [] => r' end in
            (char_from_u32 (base_value 16 h), r'')
          else if c =? 120 then
            (* \x : up to two hex digits are CONSUMED; only with exactly two is the value used *)
            let '(h, r') := take_hex 2 r in
            if Nat.eqb (length h) 2 then (char_from_u32 (base_value 16 h), r') else (c, r')
          else (c, r)                                  (* escaped quote / unknown escape: the character *)
      end
  end.

(* ------------------------------------------------------------------ multi_quoted_string *)
Fixpoint count_q (q : N) (s : str) : nat * str :=
  match s with
  | c :: r => if c =? q then let '(n, r') := count_q q r in (S n, r') else (O, s)
  | [] => (O, [])
  end.
Fixpoint take_q (q : N) (n : nat) (s : str) : option str :=
  match n with
  | O => Some s
  | S n' => match s with c :: r => if c =? q then take_q q n' r else None | [] => None end
  end.

Fixpoint mq_body (tbl : list (N * N)) (fuel : nat) (q : N) (n : nat) (escaping : bool) (s : str) : option (str * str) :=
  match fuel with
  | O => None
  | S f =>
      match take_q q n s with
      | Some rest => Some ([], rest)
      | None =>
          match s with
          | [] => None                                  (* unclosed string *)
          | c :: r =>
              if escaping && (c =? 92) then
                let '(v, r') := parse_escape tbl r in
                option_map (fun p => (v :: fst p, snd p)) (mq_body tbl f q n escaping r')
              else option_map (fun p => (c :: fst p, snd p)) (mq_body tbl f q n escaping r)
          end
      end
  end.

Definition multi_quoted (tbl : list (N * N)) (q : N) (escaping : bool) (s : str) : option (str * str) :=
  match count_q q s with
  | (O, _) => None
  | (n, r) => if Nat.even n then Some ([], r) else mq_body tbl (S (length r)) q n escaping r
  end.

Definition quoted_string (tbl : list (N * N)) (escaping : bool) (s : str) : option (str * str) :=
  match multi_quoted tbl 34 escaping s with
  | Some x => Some x
  | None => multi_quoted tbl 39 escaping s
  end.

(* raw strings r'...' / r"..." : no escapes; content stops at the first quote of either kind, CR or LF; opening and closing quote need not match *)
Definition is_anyquote (c : N) : bool := (c =? 39) || (c =? 34).
Fixpoint raw_body (s : str) : str * str :=
  match s with
  | c :: r => if is_anyquote c || (c =? 10) || (c =? 13) then ([], s)
              else let '(b, r') := raw_body r in (c :: b, r')
  | [] => ([], [])
  end.
Definition raw_string (s : str) : option (str * str) :=
  match s with
  | r :: q :: t =>
      if (r =? 114) && is_anyquote q then
        let '(b, t') := raw_body t in
        match t' with e :: t'' => if is_anyquote e then Some (b, t'') else None | [] => None end
      else None
  | _ => None
  end.

(* ------------------------------------------------------------------ f-strings *)
(* parser/interpolation.rs on the DECODED content of f"...": text runs ({{ -> {, }} -> }) and {expr} holes *)
Inductive piece := PText (s : str) | PHole (s : str).

Fixpoint hole_body (s : str) : option (str * str) :=   (* up to the closing } ; the expression text is kept opaque *)
  match s with
  | [] => None
  | c :: r => if c =? 125 then Some ([], r)
              else if c =? 123 then None
              else option_map (fun p => (c :: fst p, snd p)) (hole_body r)
  end.

Fixpoint fpieces (fuel : nat) (cur : str) (s : str) : option (list piece) :=
  let flush (l : list piece) := match cur with [] => l | _ => PText (rev cur) :: l end in
  match fuel with
  | O => None
  | S f =>
      match s with
      | [] => Some (flush [])
      | c :: r =>
          if c =? 123 then
            match r with
            | c2 :: r2 =>
                if c2 =? 123 then fpieces f (123 :: cur) r2
                else match hole_body r with
                     | Some (h, r') => option_map (fun l => flush (PHole h :: l)) (fpieces f [] r')
                     | None => None
                     end
            | [] => None
            end
          else if c =? 125 then
            match r with
            | c2 :: r2 => if c2 =? 125 then fpieces f (125 :: cur) r2 else None
            | [] => None
            end
          else fpieces f (c :: cur) r
      end
  end.
Definition fstring_pieces (content : str) : option (list piece) := fpieces (S (length content)) [] content.

(* lowering.rs: std.concat of str_lit(text) and the hole expressions; here: the SQL text of each piece *)
Definition emit_piece (bs : bool) (p : piece) : str := match p with PText s => emit_literal_string bs s | PHole h => h end.

(* ------------------------------------------------------------------ numbers *)
Inductive numlit :=
| NInt (n : N)                 (* Literal::Integer *)
| NDec (mant : N) (e10 : Z).   (* Literal::Float of the decimal rational mant * 10^e10 (binary rounding not modelled) *)

Definition I64_MAX : N := 9223372036854775807.

Fixpoint span_p (p : N -> bool) (s : str) : str * str :=
  match s with
  | c :: r => if p c then let '(a, b) := span_p p r in (c :: a, b) else ([], s)
  | [] => ([], [])
  end.
Definition is_digit_us (c : N) : bool := is_digit c || (c =? 95).
Definition no_us (s : str) : str := filter (fun c => negb (c =? 95)) s.

(* parse_integer: a non-zero digit followed by digits/underscores, or a single 0 *)
Definition parse_integer (s : str) : option (str * str) :=
  match s with
  | c :: r => if is_digit c && negb (c =? 48) then let '(a, b) := span_p is_digit_us r in Some (c :: a, b)
              else if c =? 48 then Some ([48], r) else None
  | [] => None
  end.
Definition parse_frac (s : str) : str * str :=        (* the digits after the dot (underscores kept), rest *)
  match s with
  | d :: c :: r => if (d =? 46) && is_digit c then let '(a, b) := span_p is_digit_us r in (c :: a, b) else ([], s)
  | _ => ([], s)
  end.
(* exponent: (has_exp, negative, digits, rest) *)
Definition parse_exp (s : str) : option (bool * str) * str :=
  match s with
  | e :: r =>
      if (e =? 101) || (e =? 69) then
        let '(neg, r1) := match r with
                          | sg :: r' => if sg =? 45 then (true, r') else if sg =? 43 then (false, r') else (false, r)
                          | [] => (false, r) end in
        let '(ds, r2) := span_p is_digit r1 in
        match ds with [] => (None, s) | _ => (Some (neg, ds), r2) end
      else (None, s)
  | [] => (None, s)
  end.

Definition lex_number (s : str) : option (numlit * str) :=
  match parse_integer s with
  | None => None
  | Some (ip, r1) =>
      let '(fp, r2) := parse_frac r1 in
      let '(ex, r3) := parse_exp r2 in
      let ipd := no_us ip in
      let fpd := no_us fp in
      match fp, ex with
      | [], None =>
          let v := base_value 10 ipd in
          Some (if v <=? I64_MAX then NInt v else NDec v 0, r3)
      | _, _ =>
          let e := match ex with
                   | Some (neg, ds) => let v := Z.of_N (base_value 10 ds) in if neg then Z.opp v else v
                   | None => 0%Z end in
          Some (NDec (base_value 10 (ipd ++ fpd)) (e - Z.of_nat (length fpd))%Z, r3)
      end
  end.

(* parse_number_with_base: prefix, optional _, 1..max digits of the base *)
Fixpoint take_digits (base : N) (n : nat) (s : str) : str * str :=
  match n, s with
  | S n', c :: r => match digit_val base c with
                    | Some _ => let '(a, b) := take_digits base n' r in (c :: a, b)
                    | None => ([], s) end
  | _, _ => ([], s)
  end.
Definition based_number (row : str * N * nat) (s : str) : option (N * str) :=
  let '(prefix, base, maxd) := row in
  match strip_prefix prefix s with
  | None => None
  | Some r =>
      let r := match r with u :: r' => if u =? 95 then r' else r | [] => r end in
      let '(ds, r') := take_digits base maxd r in
      match ds with
      | [] => None
      | _ => let v := base_value base ds in Some (if v <=? I64_MAX then v else 0, r')   (* unwrap_or(Integer(0)) *)
      end
  end.
Fixpoint based_numbers (rows : list (str * N * nat)) (s : str) : option (N * str) :=
  match rows with
  | [] => None
  | row :: rows' => match based_number row s with Some x => Some x | None => based_numbers rows' s end
  end.

(* ------------------------------------------------------------------ dates *)
Fixpoint take_n_digits (n : nat) (s : str) : option (str * str) :=
  match n with
  | O => Some ([], s)
  | S n' => match s with
            | c :: r => if is_digit c then option_map (fun p => (c :: fst p, snd p)) (take_n_digits n' r) else None
            | [] => None end
  end.
Definition date_inner (s : str) : option (str * str) :=
  match take_n_digits 4 s with
  | Some (y, c1 :: r1) =>
      if c1 =? 45 then
        match take_n_digits 2 r1 with
        | Some (m, c2 :: r2) =>
            if c2 =? 45 then
              match take_n_digits 2 r2 with
              | Some (d, r3) => Some (y ++ [45] ++ m ++ [45] ++ d, r3)
              | None => None end
            else None
        | _ => None end
      else None
  | _ => None
  end.
Definition opt_comp (sep : N) (n : nat) (s : str) : str * str :=
  match s with
  | c :: r => if c =? sep then match take_n_digits n r with Some (d, r') => (c :: d, r') | None => ([], s) end else ([], s)
  | [] => ([], s)
  end.
Definition time_inner (s : str) : option (str * str) :=
  match take_n_digits 2 s with
  | None => None
  | Some (hh, r0) =>
      let '(mm, r1) := opt_comp 58 2 r0 in
      let '(ss, r2) := opt_comp 58 2 r1 in
      let '(ms, r3) := match r2 with
                       | c :: r => if c =? 46 then
                                     let '(ds, r') := take_digits 10 6 r in
                                     match ds with [] => ([], r2) | _ => (c :: ds, r') end
                                   else ([], r2)
                       | [] => ([], r2) end in
      let '(tz, r4) := match r3 with
                       | c :: r =>
                           if c =? 90 then ([90], r)
                           else if (c =? 43) || (c =? 45) then
                             match take_n_digits 2 r with
                             | Some (h2, r') =>
                                 let r'' := match r' with k :: t => if k =? 58 then t else r' | [] => r' end in
                                 match take_n_digits 2 r'' with
                                 | Some (m2, r''') => (c :: h2 ++ m2, r''')      (* colon dropped *)
                                 | None => ([], r3) end
                             | None => ([], r3) end
                           else ([], r3)
                       | [] => ([], r3) end in
      Some (hh ++ mm ++ ss ++ ms ++ tz, r4)
  end.

(* end_expr: end of input, one of , ) ] } TAB SPACE > , a newline, or ".." (not consumed) *)
Definition end_expr (s : str) : bool :=
  match s with
  | [] => true
  | c :: r => (c =? 44) || (c =? 41) || (c =? 93) || (c =? 125) || (c =? 9) || (c =? 32) || (c =? 62)
              || (c =? 10) || (c =? 13) || ((c =? 46) && match r with c2 :: _ => c2 =? 46 | [] => false end)
  end.

(* ------------------------------------------------------------------ one literal token *)
Inductive lit :=
| LNull | LInt (n : N) | LFloat (mant : N) (e10 : Z) | LBool (b : bool)
| LString (s : str) | LRaw (s : str) | LFString (content : str)
| LDate (s : str) | LTime (s : str) | LTimestamp (s : str)
| LInterval (n : N) (unit : str).    (* Literal::ValueAndUnit *)

Definition lit_of_num (x : numlit) : lit := match x with NInt n => LInt n | NDec m e => LFloat m e end.

Definition date_token (s : str) : option (lit * str) :=
  match s with
  | a :: r =>
      if (a =? 64) && match r with c :: _ => is_digit c | [] => false end then
        let ts := match date_inner r with
                  | Some (d, t :: r1) =>
                      if t =? 84 then
                        match time_inner r1 with
                        | Some (tm, r2) => if end_expr r2 then Some (LTimestamp (d ++ [84] ++ tm), r2) else None
                        | None => None end
                      else None
                  | _ => None end in
        match ts with
        | Some x => Some x
        | None =>
            match date_inner r with
            | Some (d, r1) => if end_expr r1 then Some (LDate d, r1) else
                match time_inner r with Some (tm, r2) => if end_expr r2 then Some (LTime tm, r2) else None | None => None end
            | None =>
                match time_inner r with Some (tm, r2) => if end_expr r2 then Some (LTime tm, r2) else None | None => None end
            end
        end
      else None
  | [] => None
  end.

Definition kw (w : str) (s : str) : option str :=
  match strip_prefix w s with Some r => if end_expr r then Some r else None | None => None end.

(* order of token(): interpolation (f"..."), date_token, then literal(): based numbers, string, raw string,
   value_and_unit (lex_literal_u below; lex_literal is the same without intervals), number, boolean, null *)
(* value_and_unit: parse_integer, a unit name, end_expr (not consumed); since fix 8948ad3 a count beyond i64::MAX is not
   an interval literal (try_map fails; the choice in literal() goes on to number(), and the program is rejected later).
   Before, number_str.parse::<i64>().unwrap_or(1) made it 1 (finding C08-N1, fixed). *)
Definition lex_interval (units : list str) (s : str) : option (lit * str) :=
  match parse_integer s with
  | None => None
  | Some (ip, r1) =>
      match match_unit units r1 with
      | Some (u, r2) => if end_expr r2 then
                          let v := base_value 10 (no_us ip) in if v <=? I64_MAX then Some (LInterval v u, r2) else None
                        else None
      | None => None
      end
  end.

Definition lex_literal_u (units : list str) (tbl : list (N * N)) (rows : list (str * N * nat)) (s : str) : option (lit * str) :=
  let fstr := match s with
              | f :: r => if f =? 102 then option_map (fun p => (LFString (fst p), snd p)) (quoted_string tbl true r) else None
              | [] => None end in
  match fstr with Some x => Some x | None =>
  match date_token s with Some x => Some x | None =>
  match based_numbers rows s with Some (v, r) => Some (LInt v, r) | None =>
  match quoted_string tbl true s with Some (v, r) => Some (LString v, r) | None =>
  match raw_string s with Some (v, r) => Some (LRaw v, r) | None =>
  match lex_interval units s with Some x => Some x | None =>
  match lex_number s with Some (x, r) => Some (lit_of_num x, r) | None =>
  match kw [116;114;117;101] s with Some r => Some (LBool true, r) | None =>
  match kw [102;97;108;115;101] s with Some r => Some (LBool false, r) | None =>
  match kw [110;117;108;108] s with Some r => Some (LNull, r) | None => None
  end end end end end end end end end end.

Definition lex_literal (tbl : list (N * N)) (rows : list (str * N * nat)) (s : str) : option (lit * str) :=
  let fstr := match s with
              | f :: r => if f =? 102 then option_map (fun p => (LFString (fst p), snd p)) (quoted_string tbl true r) else None
              | [] => None end in
  match fstr with Some x => Some x | None =>
  match date_token s with Some x => Some x | None =>
  match based_numbers rows s with Some (v, r) => Some (LInt v, r) | None =>
  match quoted_string tbl true s with Some (v, r) => Some (LString v, r) | None =>
  match raw_string s with Some (v, r) => Some (LRaw v, r) | None =>
  match lex_number s with Some (x, r) => Some (lit_of_num x, r) | None =>
  match kw [116;114;117;101] s with Some r => Some (LBool true, r) | None =>
  match kw [102;97;108;115;101] s with Some r => Some (LBool false, r) | None =>
  match kw [110;117;108;108] s with Some r => Some (LNull, r) | None => None
  end end end end end end end end end.

(* ------------------------------------------------------------------ emission (translate_literal) *)
(* Rust's Display of an unsigned decimal: most significant digit first, no leading zeros, "0" for 0 *)
Fixpoint digits_pos_fuel (fuel : nat) (n : N) (acc : str) : str :=
  match fuel with
  | O => acc
  | S f => if n =? 0 then acc else digits_pos_fuel f (n / 10) ((48 + n mod 10) :: acc)
  end.
Definition digits_of (n : N) : str :=
  if n =? 0 then [48] else digits_pos_fuel (S (N.to_nat (N.log2 n))) n [].
Definition emit_int (z : Z) : str :=
  match z with
  | Z0 => [48]
  | Zpos p => digits_of (Npos p)
  | Zneg p => 45 :: digits_of (Npos p)
  end.
Definition emit_bool (b : bool) : str := if b then [116;114;117;101] else [102;97;108;115;101].
Definition emit_null : str := [78;85;76;76].

(* date/time literals: sqlite DATE('..') / TIME('..') / DATETIME('..'); other dialects  DATE '..' etc. *)
Definition s_DATE : str := [68;65;84;69].
Definition s_TIME : str := [84;73;77;69].
Definition s_DATETIME : str := [68;65;84;69;84;73;77;69].
Definition s_TIMESTAMP : str := [84;73;77;69;83;84;65;77;80].
(* sqlite only: a trailing [+-]HHMM becomes [+-]HH:MM *)
Definition tz_colon (v : str) : str :=
  match rev v with
  | m2 :: m1 :: h2 :: h1 :: sg :: pre =>
      if is_digit m2 && is_digit m1 && is_digit h2 && is_digit h1 && ((sg =? 43) || (sg =? 45))
      then rev pre ++ [sg; h1; h2; 58; m1; m2] else v
  | _ => v
  end.
Definition emit_datetime (sqlite : bool) (fn_sqlite fn_other : str) (v : str) : str :=
  if sqlite then fn_sqlite ++ [40] ++ emit_string (tz_colon v) ++ [41]
  else fn_other ++ [32] ++ emit_string v.

(* sqlite: ctx.dialect.is::<SQLiteDialect>();  bs: ctx.dialect.string_literal_backslash_escape() *)
Definition emit_literal (sqlite bs : bool) (l : lit) : option str :=
  match l with
  | LNull => Some emit_null
  | LInt n => Some (emit_int (Z.of_N n))
  | LFloat _ _ => None                       (* format!("{f:?}") of the rounded binary64: not modelled *)
  | LBool b => Some (emit_bool b)
  | LString s | LRaw s => Some (emit_literal_string bs s)
  | LFString _ => None                       (* an expression (concat), see fstring_pieces / emit_piece *)
  | LDate v => Some (emit_datetime sqlite s_DATE s_DATE v)
  | LTime v => Some (emit_datetime sqlite s_TIME s_TIME v)
  | LTimestamp v => Some (emit_datetime sqlite s_DATETIME s_TIMESTAMP v)
  | LInterval _ _ => None                    (* needs the dialect's style and the field table: Model/Interval.v interval_text *)
  end.

(* ------------------------------------------------------------------ translate_literal on the Rust-side Literal (hook verif:literal) *)
(* prqlc_parser::lexer::lr::Literal as translate_literal receives it -- from the lexer (rlit_of_lit), from constant
   folding (negative integers), from relation literals, from std functions.  String and RawString share one arm. *)
Inductive rlit :=
| RNull | RInt (z : Z) | RFloat | RBool (b : bool) | RString (s : str)
| RDate (s : str) | RTime (s : str) | RTimestamp (s : str) | RValueAndUnit.

Definition emit_rlit (sqlite bs : bool) (l : rlit) : option str :=
  match l with
  | RNull => Some emit_null
  | RInt z => Some (emit_int z)
  | RFloat => None                           (* format!("{f:?}"): Model/FloatFmt.v works on the decimal value, not on the bits *)
  | RBool b => Some (emit_bool b)
  | RString s => Some (emit_literal_string bs s)
  | RDate v => Some (emit_datetime sqlite s_DATE s_DATE v)
  | RTime v => Some (emit_datetime sqlite s_TIME s_TIME v)
  | RTimestamp v => Some (emit_datetime sqlite s_DATETIME s_TIMESTAMP v)
  | RValueAndUnit => None                    (* intervals: Model/Interval.v interval_text (needs the dialect's style) *)
  end.

Definition rlit_of_lit (l : lit) : option rlit :=
  match l with
  | LNull => Some RNull | LInt n => Some (RInt (Z.of_N n)) | LFloat _ _ => Some RFloat | LBool b => Some (RBool b)
  | LString s | LRaw s => Some (RString s) | LFString _ => None
  | LDate v => Some (RDate v) | LTime v => Some (RTime v) | LTimestamp v => Some (RTimestamp v)
  | LInterval _ _ => Some RValueAndUnit
  end.

(* ------------------------------------------------------------------ dialects: who doubles backslashes, who reads them as escapes *)
(* The two tables are parameters, instantiated with Gen/GenLiteral.v:
     wt = writer_backslash_doubling  (sql/dialect.rs: Dialect -> handler -> string_literal_backslash_escape)
     rt = reader_backslash_escape    (the pinned sqlparser's dialect of the same name: does '...' read \ as an escape;
                                      do \% and \_ keep their backslash) *)
Fixpoint reader_of (rt : list (str * (bool * bool))) (name : str) : option sqld :=
  match rt with
  | [] => None
  | (k, (b, w)) :: r => if leqb name k then Some {| bs_escapes := b; keep_wild := w |} else reader_of r name
  end.
(* every dialect of the writer table, except the listed ones, doubles backslashes exactly when its reading side
   treats them as escapes *)
Definition flags_agree (except : list str) (wt : list (str * bool)) (rt : list (str * (bool * bool))) : bool :=
  forallb (fun kv => existsb (leqb (fst kv)) except ||
                     match reader_of rt (fst kv) with Some d => Bool.eqb (snd kv) (bs_escapes d) | None => false end) wt.
Fixpoint writer_of (wt : list (str * bool)) (name : str) : option bool :=
  match wt with [] => None | (k, w) :: r => if leqb name k then Some w else writer_of r name end.
Definition s_bigquery : str := [98;105;103;113;117;101;114;121].

(* reading a number token back: decimal digits -> value *)
Definition all_digits (s : str) : bool := match s with [] => false | _ => forallb is_digit s end.
Definition sql_int_value (s : str) : option N := if all_digits s then Some (base_value 10 s) else None.

(* plain-data views for the correspondence harness *)
Definition zview (z : Z) : N * N := match z with Z0 => (0, 0) | Zpos p => (0, Npos p) | Zneg p => (1, Npos p) end.
Definition lit_view (l : lit) : N * str * (N * N) :=     (* tag, text payload, (sign, magnitude) of the integer payload *)
  match l with
  | LNull => (0, [], (0, 0)) | LInt n => (1, [], (0, n)) | LFloat m e => (2, digits_of m, zview e)
  | LBool b => (3, [], (0, if b then 1 else 0)) | LString s => (4, s, (0, 0)) | LRaw s => (5, s, (0, 0))
  | LFString s => (6, s, (0, 0)) | LDate s => (7, s, (0, 0)) | LTime s => (8, s, (0, 0)) | LTimestamp s => (9, s, (0, 0))
  | LInterval n u => (10, u, (0, n))
  end.
Definition lex_literal_view tbl rows (s : str) : option (N * str * (N * N) * str) :=
  match lex_literal tbl rows s with Some (l, r) => Some (lit_view l, r) | None => None end.
Definition lex_literal_u_view units tbl rows (s : str) : option (N * str * (N * N) * str) :=
  match lex_literal_u units tbl rows s with Some (l, r) => Some (lit_view l, r) | None => None end.
Definition piece_view (p : piece) : N * str := match p with PText s => (0, s) | PHole s => (1, s) end.

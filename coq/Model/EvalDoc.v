(* The documented meaning of a PRQL scalar expression over Model/Value.v ("eval_doc"), with the
   extensions C02 needs: `**`, `//` on non-integers (truncation toward zero), syntactic null tests,
   case, in-range.  [None] = outside the value model (e.g. `%` on non-integers, negative exponents,
   regex search): the theorems and the oracle say nothing there.  Definitions only. *)
From Coq Require Import List NArith ZArith QArith Bool.
From PV Require Import Lib.ListX Model.Value Model.PrqlExpr Gen.GenPratt.
Import ListNotations.
Local Open Scope Z_scope.

Definition lit_val (l : lit) : val :=
  match l with
  | LNull => VNull
  | LInt z => VInt z
  | LFloat n k => VRat (Qred (Qmake n (Z.to_pos (Z.pow 2 (Z.of_N k)))))
  | LBool b => b2v b
  | LStr s => VStr s
  | LTemporal _ _ => VNull       (* never used: see lit_eval *)
  end.
(* a date/time literal has no value in this model (None = outside the value model): a theorem of the form
   `eval (fold r) = eval r` therefore FORBIDS a folder to decide anything about it -- folding
   `@2020-01-01T00:00:00Z == @2020-01-01T00:00:00+00:00` to false (F17) would turn None into Some *)
Definition lit_eval (l : lit) : option val := if is_temporal_lit l then None else Some (lit_val l).

Definition qtrunc (q : Q) : Z := Z.quot (Qnum q) (Zpos (Qden q)).

(* `//` : truncated division, an integer, also for non-integer operands *)
Definition divi_val (x y : val) : option val :=
  match x, y with
  | VNull, _ | _, VNull => Some VNull
  | VInt a, VInt b => Some (arith DivI x y)
  | _, _ => match to_q x, to_q y with
            | Some a, Some b => Some (if Qeq_bool b 0 then VNull else VInt (qtrunc (a / b)))
            | _, _ => None
            end
  end.
(* `%` : remainder with the sign of the dividend, integers only *)
Definition mod_val (x y : val) : option val :=
  match x, y with
  | VNull, _ | _, VNull => Some VNull
  | VInt _, VInt _ => Some (arith Mod x y)
  | _, _ => None
  end.
(* `**` : integer exponents 0..64 only (everything else is not exactly representable / astronomically large) *)
Definition pow_val (x y : val) : option val :=
  match x, y with
  | VNull, _ | _, VNull => Some VNull
  | VInt a, VInt n => if (n <? 0) || (64 <? n) then None else Some (VInt (Z.pow a n))
  | VRat a, VInt n => if (n <? 0) || (64 <? n) then None else Some (VRat (Qred (Qpower a n)))
  | _, _ => None
  end.

Definition num_or_null (v : val) : bool := match v with VStr _ => false | _ => true end.

Definition eval_binop (o : binop) (x y : val) : option val :=
  match o with
  | B_Mul => Some (eval_bop Mul x y) | B_DivFloat => Some (eval_bop DivF x y)
  | B_DivInt => divi_val x y | B_Mod => mod_val x y | B_Pow => pow_val x y
  | B_Add => Some (eval_bop Add x y) | B_Sub => Some (eval_bop Sub x y)
  | B_Eq => Some (eval_bop Eq x y) | B_Ne => Some (eval_bop Ne x y)
  | B_Gt => Some (eval_bop Gt x y) | B_Lt => Some (eval_bop Lt x y)
  | B_Gte => Some (eval_bop Ge x y) | B_Lte => Some (eval_bop Le x y)
  | B_And => Some (eval_bop And x y) | B_Or => Some (eval_bop Or x y)
  | B_Coalesce => Some (eval_bop Coalesce x y)
  | B_RegexSearch => None
  end.

(* the literal null; a unary plus in front of it changes nothing (`+x` is x) *)
Fixpoint is_null_lit (e : pexpr) : bool :=
  match e with PLit LNull => true | PUnE U_Add x => is_null_lit x | _ => false end.
Definition is_eq_op (o : binop) : option bool :=   (* Some negated *)
  match o with B_Eq => Some false | B_Ne => Some true | _ => None end.

Definition and3 (x y : val) : val := eval_bop And x y.

Fixpoint eval_doc (env : list val) (e : pexpr) : option val :=
  match e with
  | PCol i => Some (nth i env VNull)
  | PLit l => lit_eval l
  | PBinE o l r =>
      match is_eq_op o, is_null_lit l || is_null_lit r with
      | Some negated, true =>
          (* comparison with the LITERAL null tests null-ness *)
          option_map (fun v => eval_isnull v negated) (eval_doc env (if is_null_lit l then r else l))
      | _, _ =>
          match eval_doc env l, eval_doc env r with
          | Some x, Some y => eval_binop o x y
          | _, _ => None
          end
      end
  | PUnE u x =>
      match eval_doc env x with
      | Some v => match u with
                  | U_Neg => Some (eval_neg v) | U_Not => Some (eval_not v) | U_Add => Some v | U_EqSelf => None
                  end
      | None => None
      end
  | PCase cs =>
      (* the value of the first branch whose condition is true (branches after it are not looked at) *)
      (fix go (cs : list (pexpr * pexpr)) : option val :=
         match cs with
         | [] => Some VNull
         | (c, v) :: t =>
             match eval_doc env c with
             | Some cv => if is_true cv then eval_doc env v else go t
             | None => None
             end
         end) cs
  | PIn x lo hi =>
      (* lo <= x <= hi; an absent bound, or the literal null, is an open bound; with both bounds open the
         test is true whatever x is *)
      let is_open (b : option pexpr) := match b with None => true | Some be => is_null_lit be end in
      if is_open lo && is_open hi then Some (b2v true) else
      match eval_doc env x with
      | None => None
      | Some v =>
          let side (b : option pexpr) (o : bop) : option (option val) :=
            match b with
            | None => Some None
            | Some be => if is_null_lit be then Some None
                         else match eval_doc env be with Some bv => Some (Some (eval_bop o v bv)) | None => None end
            end in
          match side lo Ge, side hi Le with
          | Some (Some a), Some (Some b) => Some (and3 a b)
          | Some (Some a), Some None => Some a
          | Some None, Some (Some b) => Some b
          | Some None, Some None => Some (b2v true)
          | _, _ => None
          end
      end
  end.

(* the corner that is deliberately not demanded (DESIGN.md C02): `==`/`!=` one of whose operands is
   not the literal null but is folded to it at compile time *)
From PV Require Import Model.StaticEval.
Fixpoint corner (e : pexpr) : bool :=
  match e with
  | PCol _ | PLit _ => false
  | PBinE o l r =>
      corner l || corner r ||
      match is_eq_op o with
      | Some _ => (negb (is_null_lit l) && is_null (resolve l)) || (negb (is_null_lit r) && is_null (resolve r))
      | None => false
      end
  | PUnE _ x => corner x
  | PCase cs => existsb (fun cv => corner (fst cv) || corner (snd cv)) cs
  | PIn x lo hi =>
      let ob (b : option pexpr) := match b with
                                   | Some be => corner be || (negb (is_null_lit be) && is_null (resolve be))
                                   | None => false end in
      corner x || ob lo || ob hi
  end.

(* results are shipped to the check as (tag, numerator, denominator): 0 = NULL, 1 = number, 2 = text, 3 = outside the model *)
Definition huge (z : Z) : bool := Z.pow 2 200 <? Z.abs z.
Definition ship (v : option val) : N * Z * Z :=
  match v with
  | None => (3%N, 0, 1)
  | Some VNull => (0%N, 0, 1)
  | Some (VInt z) => if huge z then (4%N, 0, 1) else (1%N, z, 1)
  | Some (VRat q) => let r := Qred q in if huge (Qnum r) || huge (Zpos (Qden r)) then (4%N, 0, 1) else (1%N, Qnum r, Zpos (Qden r))
  | Some (VStr _) => (2%N, 0, 1)
  end.

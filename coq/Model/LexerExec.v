(* C17: executable instance of the lexer model for the correspondence run.
   - [alpha_exec] / [alnum_exec]: concrete stand-ins for Rust's char::is_alphabetic / is_alphanumeric.  They are
     exact on the *validated domain* (code points below 1154, the CJK block 4E00..9FFF, the digit blocks
     1632..1641 and 1776..1785, and a list of individual code points); vplib/props/c17.py checks this against
     Rust (harness `charclass`) on every run and only feeds the model strings over that domain.
   - [snapshot_tables]: a hand copy of the tables, used ONLY to keep the search running when the translator
     failed closed (then Gen/GenLexTables.v is a stub and Model/LexerGen.v does not compile).
   - [run] / [agree]: plain-data views of the result and a decidable comparison with the implementation's
     answer (so that the bulk of the correspondence is decided inside Coq and only a boolean is printed). *)
From Coq Require Import List NArith Bool.
From PV Require Import Lib.ListX Model.Lexer.
Import ListNotations.
Local Open Scope N_scope.

Fixpoint in_ranges (c : N) (l : list (N * N)) : bool :=
  match l with [] => false | (a, b) :: r => ((a <=? c) && (c <=? b)) || in_ranges c r end.

Definition alpha_ranges : list (N * N) :=
  [(65, 90); (97, 122); (170, 170); (181, 181); (186, 186); (192, 214); (216, 246); (248, 705); (710, 721);
   (736, 740); (748, 748); (750, 750); (837, 837); (867, 884); (886, 887); (890, 893); (895, 895); (902, 902);
   (904, 906); (908, 908); (910, 929); (931, 1013); (1015, 1153); (19968, 40959)].
Definition numeric_ranges : list (N * N) :=
  [(48, 57); (178, 179); (185, 185); (188, 190); (1632, 1641); (1776, 1785)].

Definition alpha_exec (c : chr) : bool := in_ranges c alpha_ranges.
Definition alnum_exec (c : chr) : bool := alpha_exec c || in_ranges c numeric_ranges.

Definition snapshot_tables : tables := {|
  t_token_order := [0; 1; 2; 3; 4; 5; 6; 7; 8; 9; 10; 11];
  t_literal_order := [0; 1; 2; 3; 4; 5; 6; 7; 8];
  t_keywords := [[108;101;116]; [105;110;116;111]; [99;97;115;101]; [112;114;113;108]; [116;121;112;101];
                 [109;111;100;117;108;101]; [105;110;116;101;114;110;97;108]; [102;117;110;99];
                 [105;109;112;111;114;116]; [101;110;117;109]];
  t_ops := [([45;62], ([65;114;114;111;119;84;104;105;110], false)); ([61;62], ([65;114;114;111;119;70;97;116], false));
            ([61;61], ([69;113], false)); ([33;61], ([78;101], false)); ([62;61], ([71;116;101], false));
            ([60;61], ([76;116;101], false)); ([126;61], ([82;101;103;101;120;83;101;97;114;99;104], false));
            ([38;38], ([65;110;100], true)); ([124;124], ([79;114], true));
            ([63;63], ([67;111;97;108;101;115;99;101], false)); ([47;47], ([68;105;118;73;110;116], false));
            ([42;42], ([80;111;119], false))];
  t_controls := [62;60;47;37;61;43;45;42;91;93;40;41;46;44;58;124;33;123;125];
  t_end_chars := [44;41;93;125;9;32;62];
  t_interp := [115;102];
  t_units := [[109;105;99;114;111;115;101;99;111;110;100;115]; [109;105;108;108;105;115;101;99;111;110;100;115];
              [115;101;99;111;110;100;115]; [109;105;110;117;116;101;115]; [104;111;117;114;115]; [100;97;121;115];
              [119;101;101;107;115]; [109;111;110;116;104;115]; [121;101;97;114;115]];
  t_true := [116;114;117;101]; t_false := [102;97;108;115;101]; t_null := [110;117;108;108];
  t_escapes := [(92, 92); (47, 47); (98, 8); (102, 12); (110, 10); (114, 13); (116, 9)];
  t_u_hex_max := 6; t_x_hex_len := 2;
  t_based := [([48;98], (2, (32%nat, 0))); ([48;120], (16, (12%nat, 1))); ([48;111], (8, (12%nat, 2)))];
  t_date_digits := [4%nat; 2%nat; 2%nat]; t_time_digits := [2%nat; 2%nat; 2%nat];
  t_tz_digits := [2%nat; 2%nat]; t_ms_max := 6 |}.

(* plain-data view: Some [(kind, (start, end)); ...] *)
Definition view (t : token) : kind * (N * N) := (tkind t, (tstart t, tend t)).
Definition run (T : tables) (s : str) : option (list (kind * (N * N))) :=
  option_map (map view) (lex alpha_exec alnum_exec T s).

(* ---- decidable comparison with the implementation's answer ---- *)
Definition lit_eqb (a b : lit) : bool :=
  match a, b with
  | LNull, LNull => true
  | LInt x, LInt y => x =? y
  | LFloat x, LFloat y => leqb x y
  | LBool x, LBool y => Bool.eqb x y
  | LString x, LString y | LRaw x, LRaw y | LDate x, LDate y | LTime x, LTime y | LTimestamp x, LTimestamp y => leqb x y
  | LVU n u, LVU m v => (n =? m) && leqb u v
  | _, _ => false
  end.
Fixpoint cs_eqb (a b : list (bool * str)) : bool :=
  match a, b with
  | [], [] => true
  | (d, x) :: a', (e, y) :: b' => Bool.eqb d e && leqb x y && cs_eqb a' b'
  | _, _ => false
  end.
Definition kind_eqb (a b : kind) : bool :=
  match a, b with
  | KNewLine, KNewLine | KAnnotate, KAnnotate | KStart, KStart => true
  | KIdent x, KIdent y | KKeyword x, KKeyword y | KParam x, KParam y | KOp x, KOp y
  | KComment x, KComment y | KDocComment x, KDocComment y => leqb x y
  | KLiteral x, KLiteral y => lit_eqb x y
  | KRange a1 a2, KRange b1 b2 => Bool.eqb a1 b1 && Bool.eqb a2 b2
  | KInterp c x, KInterp d y => (c =? d) && leqb x y
  | KControl c, KControl d => c =? d
  | KLineWrap x, KLineWrap y => cs_eqb x y
  | _, _ => false
  end.
Fixpoint toks_eqb (a b : list (kind * (N * N))) : bool :=
  match a, b with
  | [], [] => true
  | (k, (s, e)) :: a', (k', (s', e')) :: b' => kind_eqb k k' && (s =? s') && (e =? e') && toks_eqb a' b'
  | _, _ => false
  end.
Definition res_eqb (a b : option (list (kind * (N * N)))) : bool :=
  match a, b with
  | None, None => true
  | Some x, Some y => toks_eqb x y
  | _, _ => false
  end.

(* indices (in the batch) of the cases where model and implementation differ *)
Fixpoint disagree (T : tables) (i : N) (cases : list (str * option (list (kind * (N * N))))) : list N :=
  match cases with
  | [] => []
  | (s, want) :: r => if res_eqb (run T s) want then disagree T (i + 1) r else i :: disagree T (i + 1) r
  end.

Fixpoint n_range (lo : N) (n : nat) : list N := match n with O => [] | S k => lo :: n_range (lo + 1) k end.

(* C08 / C09 -- a lexer for the target SQL family, as a character-at-a-time state machine.
   It is the *reading* side of the literal / identifier round trips: what a database's tokenizer makes
   of the text prqlc emits.  Standard SQL: inside '...' the only special character is the quote, ''
   stands for one quote.  Dialects of the "backslash family" (sqlparser's
   `supports_string_literal_backslash_escape`: MySQL, BigQuery, ClickHouse, Snowflake, Redshift)
   additionally treat \ as an escape character inside '...'.
   Comments (-- to end of line, /* ... */), quoted identifiers ("..." and `...`, quote doubled inside),
   words, numbers and single-character punctuation are tokenised so that "the statement's structure"
   = its token list is defined for arbitrary text.

   Being a fold over the characters, lexing composes: the tokens of  pre ++ x  are the tokens emitted
   while reading pre, followed by lexing x from the state pre ended in (Proofs/EscapeProofs.v,
   run_app).  That is what makes `literal_no_structure_change` a statement about arbitrary contexts.

   Modelled from documentation (SQL-92 5.3, SQLite tokenize.c, MySQL 9.1.1 String Literals) and
   validated against (a) SQLite itself by the end-to-end stream and (b) sqlparser's per-dialect
   tokenizer (harness `c08_tok`) by the correspondence stream of c08.py.  Not modelled: MySQL's
   requirement of white space after --, nested block comments, national/hex/dollar-quoted strings. *)
From Coq Require Import List NArith Bool.
From PV Require Import Lib.ListX.
Import ListNotations.
Local Open Scope N_scope.

Record sqld := { bs_escapes : bool;     (* \ escapes the next character inside '...' *)
                 keep_wild : bool }.    (* MySQL: \% and \_ keep their backslash *)
Definition std_sql : sqld := {| bs_escapes := false; keep_wild := false |}.
Definition bs_sql : sqld := {| bs_escapes := true; keep_wild := false |}.
Definition mysql_sql : sqld := {| bs_escapes := true; keep_wild := true |}.

Inductive tok :=
| TString (s : str)            (* '...' : the VALUE, after undoing the quoting *)
| TQuoted (q : N) (s : str)    (* "..." or `...` : the name, after undoing the quoting *)
| TWord (s : str)              (* bare identifier or keyword, as written *)
| TNumber (s : str)            (* numeric literal, as written *)
| TPunct (c : N)
| TUnterminated.               (* input ended inside a string / quoted identifier / block comment *)

Inductive lstate :=
| L0                                   (* between tokens *)
| LStr (acc : str)                     (* inside '...'; acc = value so far, reversed *)
| LStrQ (acc : str)                    (* inside '...', just read a quote: end of literal, or first half of '' *)
| LStrB (acc : str)                    (* inside '...', just read a backslash (backslash family only) *)
| LQId (q : N) (acc : str)
| LQIdQ (q : N) (acc : str)
| LWord (acc : str)
| LNum (acc : str)
| LMinus | LSlash | LLineC | LBlockC | LBlockCStar.

Definition is_digit (c : N) : bool := (48 <=? c) && (c <=? 57).
Definition is_alpha (c : N) : bool :=
  ((65 <=? c) && (c <=? 90)) || ((97 <=? c) && (c <=? 122)) || (c =? 95) || (128 <=? c).
Definition is_wordc (c : N) : bool := is_alpha c || is_digit c || (c =? 36).
Definition is_space (c : N) : bool := (c =? 32) || (c =? 9) || (c =? 10) || (c =? 13).

(* the character a backslash escape stands for (sqlparser tokenizer.rs:2072 = MySQL's table);
   result is in reversed order, ready to be consed on acc *)
Definition bs_decode (d : sqld) (c : N) : str :=
  if keep_wild d && ((c =? 37) || (c =? 95)) then [c; 92]
  else if c =? 48 then [0] else if c =? 97 then [7] else if c =? 98 then [8]
  else if c =? 102 then [12] else if c =? 110 then [10] else if c =? 114 then [13]
  else if c =? 116 then [9] else if c =? 90 then [26] else [c].

Definition step0 (c : N) : lstate * list tok :=
  if is_space c then (L0, [])
  else if c =? 39 then (LStr [], [])
  else if (c =? 34) || (c =? 96) then (LQId c [], [])
  else if is_digit c then (LNum [c], [])
  else if is_alpha c then (LWord [c], [])
  else if c =? 45 then (LMinus, [])
  else if c =? 47 then (LSlash, [])
  else (L0, [TPunct c]).

Definition flush_then (t : tok) (c : N) : lstate * list tok :=
  let '(st, out) := step0 c in (st, t :: out).

Definition num_continues (acc : str) (c : N) : bool :=
  is_wordc c || (c =? 46) ||
  (((c =? 43) || (c =? 45)) && match acc with e :: _ => (e =? 101) || (e =? 69) | [] => false end).

Definition step (d : sqld) (st : lstate) (c : N) : lstate * list tok :=
  match st with
  | L0 => step0 c
  | LStr acc => if c =? 39 then (LStrQ acc, [])
                else if bs_escapes d && (c =? 92) then (LStrB acc, [])
                else (LStr (c :: acc), [])
  | LStrQ acc => if c =? 39 then (LStr (39 :: acc), []) else flush_then (TString (rev acc)) c
  | LStrB acc => (LStr (bs_decode d c ++ acc), [])
  | LQId q acc => if c =? q then (LQIdQ q acc, []) else (LQId q (c :: acc), [])
  | LQIdQ q acc => if c =? q then (LQId q (q :: acc), []) else flush_then (TQuoted q (rev acc)) c
  | LWord acc => if is_wordc c then (LWord (c :: acc), []) else flush_then (TWord (rev acc)) c
  | LNum acc => if num_continues acc c then (LNum (c :: acc), []) else flush_then (TNumber (rev acc)) c
  | LMinus => if c =? 45 then (LLineC, []) else flush_then (TPunct 45) c
  | LSlash => if c =? 42 then (LBlockC, []) else flush_then (TPunct 47) c
  | LLineC => if c =? 10 then (L0, []) else (LLineC, [])
  | LBlockC => if c =? 42 then (LBlockCStar, []) else (LBlockC, [])
  | LBlockCStar => if c =? 47 then (L0, []) else if c =? 42 then (LBlockCStar, []) else (LBlockC, [])
  end.

Definition finish (st : lstate) : list tok :=
  match st with
  | L0 | LLineC => []
  | LStr _ | LStrB _ | LQId _ _ | LBlockC | LBlockCStar => [TUnterminated]
  | LStrQ acc => [TString (rev acc)]
  | LQIdQ q acc => [TQuoted q (rev acc)]
  | LWord acc => [TWord (rev acc)]
  | LNum acc => [TNumber (rev acc)]
  | LMinus => [TPunct 45]
  | LSlash => [TPunct 47]
  end.

Fixpoint run (d : sqld) (st : lstate) (s : str) : list tok :=
  match s with
  | [] => finish st
  | c :: r => let '(st', out) := step d st c in out ++ run d st' r
  end.

Definition sql_lex (d : sqld) (s : str) : list tok := run d L0 s.

(* the two halves of `run` on a prefix: tokens completed while reading it, and the state it ends in *)
Fixpoint emitted (d : sqld) (st : lstate) (s : str) : list tok :=
  match s with
  | [] => []
  | c :: r => let '(st', out) := step d st c in out ++ emitted d st' r
  end.
Fixpoint state_after (d : sqld) (st : lstate) (s : str) : lstate :=
  match s with
  | [] => st
  | c :: r => state_after d (fst (step d st c)) r
  end.

(* a context "ends between tokens": after reading it the lexer is in L0 *)
Definition closed_prefix (d : sqld) (pre : str) : bool :=
  match state_after d L0 pre with L0 => true | _ => false end.

(* plain-data view for the correspondence harness: (kind, payload) *)
Definition tok_view (t : tok) : N * str :=
  match t with
  | TString s => (1, s) | TQuoted q s => (2, q :: s) | TWord s => (3, s) | TNumber s => (4, s)
  | TPunct c => (5, [c]) | TUnterminated => (6, [])
  end.
Definition sql_lex_view (d : sqld) (s : str) : list (N * str) := map tok_view (sql_lex d s).

(* C03: model of sort inference in the SQL back end (sql/pq/postprocess.rs, SortingInference:
   fold_sql_query / fold_sql_transforms) at the level of transform kinds.  Sort keys are opaque
   tokens (`key`): which column a key denotes after a sub-query boundary (cid redirects, aliasing) is
   NOT modelled here; it is checked by execution.  Definitions only. *)
From Coq Require Import List Bool Arith.
Import ListNotations.

Section Sorts.
  Variable key : Type.                       (* one ORDER BY list, opaque *)
  Variable is_empty : key -> bool.           (* Vec::is_empty of a sort list *)
  Variable empty : key.

  Inductive item :=
  | IFromRef (tid : nat)                     (* From(Ref tid): a CTE defined earlier, or a base table *)
  | ISort (k : key)                          (* explicit Sort: recorded, not emitted *)
  | IReset                                   (* Distinct | Aggregate: clear the sorting *)
  | IJoin                                    (* clears only a DISTINCT ON-internal sorting *)
  | ITake (part_empty : bool) (embedded : key)
  | IDistinctOn
  | IOther.                                  (* Select, Filter, Union, ... : no effect *)

  Record st := mkst { sorting : key; fdo : bool }.   (* fdo = sorting_from_distinct_on *)
  Definition st0 := mkst empty false.

  Definition lookup (ctes : list (nat * st)) (tid : nat) : st :=
    match find (fun p => Nat.eqb (fst p) tid) ctes with
    | Some p => snd p
    | None => st0
    end.

  (* one iteration of the loop in fold_sql_transforms: new state, transforms pushed to `result` *)
  Definition step (ctes : list (nat * st)) (s : st) (i : item) : st * list item :=
    match i with
    | IFromRef tid => (lookup ctes tid, [i])
    | ISort k => (mkst k false, [])
    | IReset => (st0, [i])
    | IJoin => (if fdo s then st0 else s, [i])
    | ITake pe emb =>
        let to_emit := if pe && negb (is_empty emb) then emb else sorting s in
        (s, [ISort to_emit; i])
    | IDistinctOn => (mkst (sorting s) true, [ISort (sorting s); i])
    | IOther => (s, [i])
    end.

  Fixpoint run (ctes : list (nat * st)) (s : st) (p : list item) : st * list item :=
    match p with
    | [] => (s, [])
    | i :: r => let '(s1, o1) := step ctes s i in
                let '(s2, o2) := run ctes s1 r in (s2, o1 ++ o2)
    end.

  (* fold_sql_query: CTEs in order, each recorded under its tid; then the main relation, with the
     last sorting pushed as a final Sort *)
  Fixpoint run_ctes (ctes : list (nat * st)) (cs : list (nat * list item)) : list (nat * st) * list (nat * list item) :=
    match cs with
    | [] => (ctes, [])
    | (tid, p) :: r =>
        let '(s, o) := run ctes st0 p in
        let '(ctes', os) := run_ctes ((tid, s) :: ctes) r in
        (ctes', (tid, o) :: os)
    end.

  Definition run_query (cs : list (nat * list item)) (main : list item) : list (nat * list item) * list item :=
    let '(ctes, os) := run_ctes [] cs in
    let '(s, o) := run ctes st0 main in
    (os, o ++ [ISort (sorting s)]).

  (* ---- specification (the book): which sort is in effect after a pipeline.
     sort introduces an order; select/derive/filter/take/join retain it; aggregate and group reset it
     (Distinct and DistinctOn come from `group`).  None = no order is specified (any order is fine). *)
  Fixpoint eff (o : option key) (p : list item) : option key :=
    match p with
    | [] => o
    | ISort k :: r => eff (Some k) r
    | IReset :: r => eff None r
    | IDistinctOn :: r => eff None r
    | _ :: r => eff o r
    end.

  (* the order each un-partitioned take must see: the order in effect at its position *)
  Fixpoint takes_spec (o : option key) (p : list item) : list (option key) :=
    match p with
    | [] => []
    | ISort k :: r => takes_spec (Some k) r
    | IReset :: r => takes_spec None r
    | IDistinctOn :: r => takes_spec None r
    | ITake _ _ :: r => o :: takes_spec o r
    | _ :: r => takes_spec o r
    end.

  (* the sort the model emits in front of each take *)
  Fixpoint takes_emitted (out : list item) : list key :=
    match out with
    | ISort k :: ITake _ _ :: r => k :: takes_emitted r
    | _ :: r => takes_emitted r
    | [] => []
    end.

  (* RQ invariant used by the code ("only one of take.sort or sorting is non-empty, never both" /
     the flattener stores the order in effect in Take.sort): an embedded sort, when present, is the
     order in effect at that take *)
  Fixpoint takes_wf (o : option key) (p : list item) : Prop :=
    match p with
    | [] => True
    | ISort k :: r => takes_wf (Some k) r
    | IReset :: r => takes_wf None r
    | IDistinctOn :: r => takes_wf None r
    | ITake pe emb :: r => (pe && negb (is_empty emb) = true -> o = Some emb) /\ takes_wf o r
    | _ :: r => takes_wf o r
    end.
End Sorts.

Arguments IFromRef {key}. Arguments ISort {key}. Arguments IReset {key}. Arguments IJoin {key}.
Arguments ITake {key}. Arguments IDistinctOn {key}. Arguments IOther {key}.

(* ---- the tail of fold_sql_transforms: `if !self.main_relation { make sure that its SELECT includes the columns from the
   sort }` -- the FIRST Select of the relation's result gets every column of the relation's final sorting that it does not
   select yet, appended in sorting order, so that readers of the CTE can ORDER BY them.  Columns are ids. *)
Section Widen.
  Fixpoint widen (sel : list nat) (sort_cols : list nat) : list nat :=
    match sort_cols with
    | [] => sel
    | c :: r => widen (if existsb (Nat.eqb c) sel then sel else sel ++ [c]) r
    end.
  Definition select_after (main : bool) (sel sort_cols : list nat) : list nat := if main then sel else widen sel sort_cols.
  (* A set operation (UNION ALL / EXCEPT / INTERSECT) or a recursive CTE pairs that first SELECT with the SELECT of its other
     operand, which sort inference leaves alone: the operands keep equal widths iff the widening adds nothing *)
  Definition arity_kept (main : bool) (sel sort_cols : list nat) : bool :=
    Nat.eqb (length (select_after main sel sort_cols)) (length sel).
End Widen.

(* ---- column identity: the same inference on sort keys that ARE lists of (column id, descending), with what happens to
   the ids: `CidRedirector::redirect_sorts` at a From (the sorting inherited from the CTE is mapped through the cid_redirects
   of the relation instance that reads it), the widening of the CTE's first SELECT, and the book-keeping of fold_sql_query:
   every column the widening added gets a fresh id in the FIRST (smallest riid) relation instance that reads the CTE, and a
   redirect old -> new there.  Mirrors postprocess.rs fold_sql_query / fold_sql_transforms for CTEs that are one atomic
   pipeline and Froms that are references; the final ORDER BY of the main query (alias_last_sorting) is not modelled. *)
Section Cid.
  Definition skey := list (nat * bool).
  Definition skey_empty (k : skey) : bool := match k with [] => true | _ => false end.

  Definition redirect_cid (rd : list (nat * nat)) (c : nat) : nat :=
    match find (fun p => Nat.eqb (fst p) c) rd with Some p => snd p | None => c end.
  Definition redirect_sorts (rd : list (nat * nat)) (k : skey) : skey := map (fun cb => (redirect_cid rd (fst cb), snd cb)) k.

  Inductive citem :=
  | CFrom (tid riid : nat) | CSort (k : skey) | CReset | CJoin | CTake (part_empty : bool) (emb : skey) | CDistinctOn
  | CSelect (cids : list nat) | COther.

  Definition rd_of (rds : list (nat * list (nat * nat))) (riid : nat) : list (nat * nat) :=
    match find (fun p => Nat.eqb (fst p) riid) rds with Some p => snd p | None => [] end.

  Definition cstep (ctes : list (nat * st skey)) (rds : list (nat * list (nat * nat))) (s : st skey) (i : citem) : st skey * list citem :=
    match i with
    | CFrom tid riid =>
        let s0 := lookup skey [] ctes tid in
        (mkst skey (redirect_sorts (rd_of rds riid) (sorting skey s0)) (fdo skey s0), [i])
    | CSort k => (mkst skey k false, [])
    | CReset => (mkst skey [] false, [i])
    | CJoin => (if fdo skey s then mkst skey [] false else s, [i])
    | CTake pe emb => (s, [CSort (if pe && negb (skey_empty emb) then emb else sorting skey s); i])
    | CDistinctOn => (mkst skey (sorting skey s) true, [CSort (sorting skey s); i])
    | CSelect _ | COther => (s, [i])
    end.

  Fixpoint crun (ctes : list (nat * st skey)) (rds : list (nat * list (nat * nat))) (s : st skey) (p : list citem) : st skey * list citem :=
    match p with
    | [] => (s, [])
    | i :: r => let '(s1, o1) := cstep ctes rds s i in let '(s2, o2) := crun ctes rds s1 r in (s2, o1 ++ o2)
    end.

  Fixpoint widen_first (p : list citem) (cols : list nat) : list citem :=
    match p with
    | [] => []
    | CSelect sel :: r => CSelect (widen sel cols) :: r
    | i :: r => i :: widen_first r cols
    end.
  Definition last_select (p : list citem) : option (list nat) :=
    fold_left (fun acc i => match i with CSelect sel => Some sel | _ => acc end) p None.

  Record cstate := mkCstate { cs_ctes : list (nat * st skey); cs_rds : list (nat * list (nat * nat)); cs_next : nat }.

  Fixpoint add_redirects (news : list nat) (next : nat) (rd : list (nat * nat)) : list (nat * nat) * nat :=
    match news with
    | [] => (rd, next)
    | c :: r => add_redirects r (S next) ((c, next) :: filter (fun p => negb (Nat.eqb (fst p) c)) rd)
    end.
  Fixpoint set_rd (rds : list (nat * list (nat * nat))) (riid : nat) (rd : list (nat * nat)) : list (nat * list (nat * nat)) :=
    match rds with
    | [] => [(riid, rd)]
    | (r, x) :: t => if Nat.eqb r riid then (r, rd) :: t else (r, x) :: set_rd t riid rd
    end.
  (* the relation instance with the smallest riid whose source is the CTE *)
  Definition first_reader (insts : list (nat * nat)) (tid : nat) : option nat :=
    fold_left (fun acc p => if Nat.eqb (snd p) tid then match acc with Some m => Some (Nat.min m (fst p)) | None => Some (fst p) end else acc) insts None.

  (* one CTE of fold_sql_query *)
  Definition fold_cte (insts : list (nat * nat)) (cs : cstate) (tid : nat) (p : list citem) : cstate * list citem :=
    let before := last_select p in
    let '(s, o) := crun (cs_ctes cs) (cs_rds cs) (mkst skey [] false) p in
    let o := widen_first o (map fst (sorting skey s)) in
    let after := last_select o in
    let news := match before, after with
                | Some b, Some a => filter (fun c => negb (existsb (Nat.eqb c) b)) a
                | _, _ => []
                end in
    let '(rds, next) :=
      match news, first_reader insts tid with
      | _ :: _, Some riid => let '(rd, nx) := add_redirects news (cs_next cs) (rd_of (cs_rds cs) riid) in (set_rd (cs_rds cs) riid rd, nx)
      | _, _ => (cs_rds cs, cs_next cs)
      end in
    (mkCstate ((tid, s) :: cs_ctes cs) rds next, o).

  Fixpoint fold_ctes (insts : list (nat * nat)) (cs : cstate) (ctes : list (nat * list citem)) : cstate * list (nat * list citem) :=
    match ctes with
    | [] => (cs, [])
    | (tid, p) :: r => let '(cs1, o) := fold_cte insts cs tid p in let '(cs2, os) := fold_ctes insts cs1 r in (cs2, (tid, o) :: os)
    end.

  (* the whole query: CTEs, then the main relation (its appended final Sort is alias_last_sorting's business: only its directions
     are given, as the kind-level model does) *)
  Definition fold_query (insts : list (nat * nat)) (rds : list (nat * list (nat * nat))) (next : nat)
                        (ctes : list (nat * list citem)) (main : list citem) : cstate * list (nat * list citem) * list citem * skey :=
    let '(cs, os) := fold_ctes insts (mkCstate [] rds next) ctes in
    let '(s, o) := crun (cs_ctes cs) (cs_rds cs) (mkst skey [] false) main in
    (cs, os, o, sorting skey s).

  (* ---- alias_last_sorting + the final redirect: what the ORDER BY appended to the main relation names.
     decls: column_decls reduced to what the function reads -- a relation column (its instance, its id there) or a Compute
     (and, if its expression is a bare column reference, the referenced id). *)
  Inductive decl := DRel (riid col : nat) | DCompute (column_ref : option nat).
  Definition decl_of (decls : list (nat * decl)) (c : nat) : option decl :=
    match find (fun p => Nat.eqb (fst p) c) decls with Some p => Some (snd p) | None => None end.

  (* column -> alias: the Compute with the SMALLEST id whose expression is a reference to the column (the code fills a map
     walking the declarations by descending id, later insertions overwrite) *)
  Definition alias_of (decls_ascending : list (nat * decl)) (c : nat) : option nat :=
    match find (fun p => match snd p with DCompute (Some r) => Nat.eqb r c | _ => false end) decls_ascending with
    | Some p => Some (fst p) | None => None end.

  (* revert a column to its very first form: while it is a relation column whose id is the TARGET of a redirect of its
     instance, go to the source; remember the instances, innermost first *)
  Fixpoint revert (fuel : nat) (decls : list (nat * decl)) (rds : list (nat * list (nat * nat))) (c : nat) (riids : list nat) : nat * list nat :=
    match fuel with
    | O => (c, riids)
    | S f =>
        match decl_of decls c with
        | Some (DRel riid col) =>
            match find (fun p => Nat.eqb (snd p) col) (rd_of rds riid) with
            | Some p => revert f decls rds (fst p) (riid :: riids)
            | None => (c, riids)
            end
        | _ => (c, riids)
        end
    end.

  (* forward again through the same instances: stop as soon as the column is in the final select; re-target to an alias
     that the instance carries out (fix c83467e); follow the instance's redirect *)
  Fixpoint forward (decls : list (nat * decl)) (rds : list (nat * list (nat * nat))) (final_select : list nat) (c : nat) (riids : list nat) : nat :=
    match riids with
    | [] => c
    | riid :: rest =>
        if existsb (Nat.eqb c) final_select then c else
        let rd := rd_of rds riid in
        let c1 := match alias_of decls c with
                  | Some a => if existsb (fun p => Nat.eqb (fst p) a) rd then a else c
                  | None => c
                  end in
        forward decls rds final_select (redirect_cid rd c1) rest
    end.

  Definition alias_last_sorting (fuel : nat) (decls : list (nat * decl)) (rds : list (nat * list (nat * nat)))
                                (final_select : list nat) (from_riid : nat) (k : skey) : skey :=
    redirect_sorts (rd_of rds from_riid)
      (map (fun cb => let '(c0, riids) := revert fuel decls rds (fst cb) [] in (forward decls rds final_select c0 riids, snd cb)) k).

  (* the column a column id is a COPY of: back through the redirects of its instance (the same column seen through a sub-query
     boundary) and through Computes that are a bare reference to another column (`derive {x = id}`), to the first form.  Two sort
     keys whose columns have the same first form order the rows alike: this is the `same` the check gives to
     SelectPluck.drop_resorts (a re-emitted Sort may name an alias of the column the sort in effect names, because
     alias_last_sorting re-targets the final ORDER BY to the alias) *)
  Fixpoint canon_cid (fuel : nat) (decls : list (nat * decl)) (rds : list (nat * list (nat * nat))) (c : nat) : nat :=
    match fuel with
    | O => c
    | S f =>
        let c0 := fst (revert (S f) decls rds c []) in
        match decl_of decls c0 with
        | Some (DCompute (Some r)) => canon_cid f decls rds r
        | _ => c0
        end
    end.
  Definition canon_key (fuel : nat) (decls : list (nat * decl)) (rds : list (nat * list (nat * nat))) (k : skey) : skey :=
    map (fun cb => (canon_cid fuel decls rds (fst cb), snd cb)) k.
  Fixpoint skey_eqb (a b : skey) : bool :=
    match a, b with
    | [], [] => true
    | (c, d) :: a', (c', d') :: b' => Nat.eqb c c' && Bool.eqb d d' && skey_eqb a' b'
    | _, _ => false
    end.

  (* ---- erasure to the kind-level model (keys = lists of directions) ---- *)
  Definition erase_item (i : citem) : item (list bool) :=
    match i with
    | CFrom tid _ => IFromRef tid | CSort k => ISort (map snd k) | CReset => IReset | CJoin => IJoin
    | CTake pe emb => ITake pe (map snd emb) | CDistinctOn => IDistinctOn | CSelect _ | COther => IOther
    end.
  Definition erase_st (s : st skey) : st (list bool) := mkst (list bool) (map snd (sorting skey s)) (fdo skey s).
End Cid.

(* C03: model of sort inference in the SQL back end (sql/pq/postprocess.rs, SortingInference:
   fold_sql_query / fold_sql_transforms) at the level of transform kinds.  Sort keys are opaque
   tokens (`key`): which column a key denotes after a sub-query boundary (cid redirects, aliasing) is
   NOT modelled here; it is checked by execution.  Definitions only. *)
From Coq Require Import List Bool Arith.
Import ListNotations.

Section Sorts.
  Variable key : Type.                       (* one ORDER BY list, opaque *)
  Variable is_empty : key -> bool.           (* Vec::is_empty of a sort list *)
  Variable empty : key.

  Inductive item :=
  | IFromRef (tid : nat)                     (* From(Ref tid): a CTE defined earlier, or a base table *)
  | ISort (k : key)                          (* explicit Sort: recorded, not emitted *)
  | IReset                                   (* Distinct | Aggregate: clear the sorting *)
  | IJoin                                    (* clears only a DISTINCT ON-internal sorting *)
  | ITake (part_empty : bool) (embedded : key)
  | IDistinctOn
  | IOther.                                  (* Select, Filter, Union, ... : no effect *)

  Record st := mkst { sorting : key; fdo : bool }.   (* fdo = sorting_from_distinct_on *)
  Definition st0 := mkst empty false.

  Definition lookup (ctes : list (nat * st)) (tid : nat) : st :=
    match find (fun p => Nat.eqb (fst p) tid) ctes with
    | Some p => snd p
    | None => st0
    end.

  (* one iteration of the loop in fold_sql_transforms: new state, transforms pushed to `result` *)
  Definition step (ctes : list (nat * st)) (s : st) (i : item) : st * list item :=
    match i with
    | IFromRef tid => (lookup ctes tid, [i])
    | ISort k => (mkst k false, [])
    | IReset => (st0, [i])
    | IJoin => (if fdo s then st0 else s, [i])
    | ITake pe emb =>
        let to_emit := if pe && negb (is_empty emb) then emb else sorting s in
        (s, [ISort to_emit; i])
    | IDistinctOn => (mkst (sorting s) true, [ISort (sorting s); i])
    | IOther => (s, [i])
    end.

  Fixpoint run (ctes : list (nat * st)) (s : st) (p : list item) : st * list item :=
    match p with
    | [] => (s, [])
    | i :: r => let '(s1, o1) := step ctes s i in
                let '(s2, o2) := run ctes s1 r in (s2, o1 ++ o2)
    end.

  (* fold_sql_query: CTEs in order, each recorded under its tid; then the main relation, with the
     last sorting pushed as a final Sort *)
  Fixpoint run_ctes (ctes : list (nat * st)) (cs : list (nat * list item)) : list (nat * st) * list (nat * list item) :=
    match cs with
    | [] => (ctes, [])
    | (tid, p) :: r =>
        let '(s, o) := run ctes st0 p in
        let '(ctes', os) := run_ctes ((tid, s) :: ctes) r in
        (ctes', (tid, o) :: os)
    end.

  Definition run_query (cs : list (nat * list item)) (main : list item) : list (nat * list item) * list item :=
    let '(ctes, os) := run_ctes [] cs in
    let '(s, o) := run ctes st0 main in
    (os, o ++ [ISort (sorting s)]).

  (* ---- specification (the book): which sort is in effect after a pipeline.
     sort introduces an order; select/derive/filter/take/join retain it; aggregate and group reset it
     (Distinct and DistinctOn come from `group`).  None = no order is specified (any order is fine). *)
  Fixpoint eff (o : option key) (p : list item) : option key :=
    match p with
    | [] => o
    | ISort k :: r => eff (Some k) r
    | IReset :: r => eff None r
    | IDistinctOn :: r => eff None r
    | _ :: r => eff o r
    end.

  (* the order each un-partitioned take must see: the order in effect at its position *)
  Fixpoint takes_spec (o : option key) (p : list item) : list (option key) :=
    match p with
    | [] => []
    | ISort k :: r => takes_spec (Some k) r
    | IReset :: r => takes_spec None r
    | IDistinctOn :: r => takes_spec None r
    | ITake _ _ :: r => o :: takes_spec o r
    | _ :: r => takes_spec o r
    end.

  (* the sort the model emits in front of each take *)
  Fixpoint takes_emitted (out : list item) : list key :=
    match out with
    | ISort k :: ITake _ _ :: r => k :: takes_emitted r
    | _ :: r => takes_emitted r
    | [] => []
    end.

  (* RQ invariant used by the code ("only one of take.sort or sorting is non-empty, never both" /
     the flattener stores the order in effect in Take.sort): an embedded sort, when present, is the
     order in effect at that take *)
  Fixpoint takes_wf (o : option key) (p : list item) : Prop :=
    match p with
    | [] => True
    | ISort k :: r => takes_wf (Some k) r
    | IReset :: r => takes_wf None r
    | IDistinctOn :: r => takes_wf None r
    | ITake pe emb :: r => (pe && negb (is_empty emb) = true -> o = Some emb) /\ takes_wf o r
    | _ :: r => takes_wf o r
    end.
End Sorts.

Arguments IFromRef {key}. Arguments ISort {key}. Arguments IReset {key}. Arguments IJoin {key}.
Arguments ITake {key}. Arguments IDistinctOn {key}. Arguments IOther {key}.

(* ---- the tail of fold_sql_transforms: `if !self.main_relation { make sure that its SELECT includes the columns from the
   sort }` -- the FIRST Select of the relation's result gets every column of the relation's final sorting that it does not
   select yet, appended in sorting order, so that readers of the CTE can ORDER BY them.  Columns are ids. *)
Section Widen.
  Fixpoint widen (sel : list nat) (sort_cols : list nat) : list nat :=
    match sort_cols with
    | [] => sel
    | c :: r => widen (if existsb (Nat.eqb c) sel then sel else sel ++ [c]) r
    end.
  Definition select_after (main : bool) (sel sort_cols : list nat) : list nat := if main then sel else widen sel sort_cols.
  (* A set operation (UNION ALL / EXCEPT / INTERSECT) or a recursive CTE pairs that first SELECT with the SELECT of its other
     operand, which sort inference leaves alone: the operands keep equal widths iff the widening adds nothing *)
  Definition arity_kept (main : bool) (sel sort_cols : list nat) : bool :=
    Nat.eqb (length (select_after main sel sort_cols)) (length sel).
End Widen.

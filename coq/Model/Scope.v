(* C10: name resolution and function application of the resolver, as far as scoping goes.
   Mirror of
     semantic/module.rs               Module::lookup (direct + redirects this, that, _param, std), insert_frame
     semantic/resolver/names.rs       resolve_ident_core: 0 / 1 / many candidates, fallback to `_infer`
     semantic/resolver/inference.rs   infer_table_column: only for inputs whose type still has a wildcard
     semantic/resolver/functions.rs   apply_args_to_closure (unknown named argument), fold_function (too many arguments),
                                      resolve_function_args (relational parameters)
     semantic/resolver/expr.rs        what an Ident expression becomes, by kind of declaration
     semantic/lowering.rs             lower_expr: an Ident without target id that names a module, or whose type is a relation
                                      (outside the interpolated items of an s-string), is an error (repair a131b2a); any other
                                      Ident without target id is still passed to SQL as an s-string;
                                      lower_table_ref: anything but an ident / pipeline / s-string / literal is not a relation
     semantic/resolver/names.rs       resolve_ident: a name is tried relative to the enclosing modules first -- in value
                                      positions and (repair d92afac) in relation positions as well
   A scope is the ordered list of namespaces the root module redirects to (this, that, _param, std) plus the
   root's own names.  `this` / `that` are frames: inputs (name, known columns, has-wildcard) plus columns declared
   directly (derived columns).  [lookup] returns the candidate SET as a list; resolution never depends on its order
   (Proofs/ScopeProofs.v).  Executable definitions only. *)
From Coq Require Import List NArith Bool.
From PV Require Import Lib.ListX.
Import ListNotations.
Local Open Scope N_scope.

(* what a non-column name denotes *)
Inductive nkind := NFunc | NModule | NTable | NType | NValue.

Record input := mkInput { in_name : str; in_cols : list str; in_wild : bool }.
Record frame := mkFrame { f_inputs : list input; f_direct : list str }.

Record scope := mkScope {
  s_root : list (str * nkind);          (* names of the root module: let-tables, functions, modules (std, default_db, this, that, _param, user) *)
  s_this : frame;
  s_that : option frame;                (* present while the condition of a join is resolved *)
  s_param : list (str * nkind);         (* parameters of the function being materialised (_param) *)
  s_std : list (list str * nkind) }.    (* the std module, by path: ["sum"], ["math"; "round"], ["math"] ... *)

(* an identifier: qualifier path and name *)
Definition ident := (list str * str)%type.

Inductive cand :=
| CRoot (k : nkind)
| CStd (k : nkind)
| CParam (k : nkind)
| CDirect (that : bool) (pos : nat)              (* column declared directly in this / that *)
| CInput (that : bool) (i : nat) (pos : nat)     (* column `pos` of input `i` *)
| CSelf (that : bool) (i : nat)                  (* an input itself (its `_self`): the tuple of its columns *)
| CFrame (that : bool).                          (* `this` / `that` itself *)

(* ---- helpers ---- *)

Fixpoint index_of (s : str) (l : list str) (k : nat) : list nat :=
  match l with
  | [] => []
  | x :: l' => (if leqb s x then [k] else []) ++ index_of s l' (S k)
  end.

Fixpoint assoc_all {B} (s : str) (l : list (str * B)) : list B :=
  match l with
  | [] => []
  | (x, b) :: l' => (if leqb s x then [b] else []) ++ assoc_all s l'
  end.

Fixpoint path_eqb (a b : list str) : bool :=
  match a, b with
  | [], [] => true
  | x :: a', y :: b' => leqb x y && path_eqb a' b'
  | _, _ => false
  end.

Fixpoint std_all (p : list str) (l : list (list str * nkind)) : list nkind :=
  match l with
  | [] => []
  | (x, k) :: l' => (if path_eqb p x then [k] else []) ++ std_all p l'
  end.

Definition s_this_name : str := [116;104;105;115].     (* "this" *)
Definition s_that_name : str := [116;104;97;116].      (* "that" *)
Definition s_std_name : str := [115;116;100].          (* "std" *)
Definition s_param_name : str := [95;112;97;114;97;109]. (* "_param" *)
Definition s_db_name : str := [100;101;102;97;117;108;116;95;100;98]. (* "default_db" *)

(* ---- Module::lookup on a frame namespace (this / that) ---- *)

Fixpoint inputs_named (that : bool) (q name : str) (ins : list input) (i : nat) : list cand :=
  match ins with
  | [] => []
  | x :: ins' =>
      (if leqb q (in_name x) then map (CInput that i) (index_of name (in_cols x) 0) else [])
      ++ inputs_named that q name ins' (S i)
  end.

Fixpoint inputs_any (that : bool) (name : str) (ins : list input) (i : nat) : list cand :=
  match ins with
  | [] => []
  | x :: ins' =>
      map (CInput that i) (index_of name (in_cols x) 0)
      ++ (if leqb name (in_name x) then [CSelf that i] else [])
      ++ inputs_any that name ins' (S i)
  end.

Definition frame_lookup (that : bool) (f : frame) (id : ident) : list cand :=
  match fst id with
  | [] => map (CDirect that) (index_of (snd id) (f_direct f) 0)      (* lookup_in(ns, name) *)
          ++ inputs_any that (snd id) (f_inputs f) 0                 (* name is an input; redirects input.name *)
  | [q] => inputs_named that q (snd id) (f_inputs f) 0               (* lookup_in(ns, q.name) *)
  | _ => []
  end.

Definition that_lookup (sc : scope) (id : ident) : list cand :=
  match s_that sc with Some f => frame_lookup true f id | None => [] end.

(* ---- Module::lookup on the root module ---- *)

Definition lookup (sc : scope) (id : ident) : list cand :=
  match fst id with
  | [] =>
      (* lookup_in(root, name) *)
      map CRoot (assoc_all (snd id) (s_root sc))
      ++ (if leqb (snd id) s_this_name then [CFrame false] else [])
      (* `that` is a name of the root module while the arguments of any transform are resolved: the joined frame inside a
         join condition, otherwise the EMPTY module resolve_function_args shadows it with (every std transform has a
         relation-typed parameter) *)
      ++ (if leqb (snd id) s_that_name then [CFrame true] else [])
      (* redirects: this, that, _param, std *)
      ++ frame_lookup false (s_this sc) id
      ++ that_lookup sc id
      ++ map CParam (assoc_all (snd id) (s_param sc))
      ++ map CStd (std_all [snd id] (s_std sc))
  | q :: rest =>
      (* lookup_in(root, q.rest.name): q must be a module of the root *)
      (if leqb q s_this_name then frame_lookup false (s_this sc) (rest, snd id) else [])
      ++ (if leqb q s_that_name then that_lookup sc (rest, snd id) else [])
      ++ (if leqb q s_std_name then map CStd (std_all (rest ++ [snd id]) (s_std sc)) else [])
      ++ (if leqb q s_param_name then (match rest with [] => map CParam (assoc_all (snd id) (s_param sc)) | _ => [] end) else [])
      (* redirects *)
      ++ frame_lookup false (s_this sc) id
      ++ that_lookup sc id
      ++ map CStd (std_all (fst id ++ [snd id]) (s_std sc))
  end.

(* ---- fallback: inputs that can still infer a column (`_infer`) ---- *)

Fixpoint wild_inputs (that : bool) (q : option str) (ins : list input) (i : nat) : list (bool * nat) :=
  match ins with
  | [] => []
  | x :: ins' =>
      (if in_wild x && (match q with None => true | Some q => leqb q (in_name x) end) then [(that, i)] else [])
      ++ wild_inputs that q ins' (S i)
  end.

Definition frame_infer (that : bool) (f : frame) (q : option str) : list (bool * nat) :=
  wild_inputs that q (f_inputs f) 0.

Definition that_infer (sc : scope) (q : option str) : list (bool * nat) :=
  match s_that sc with Some f => frame_infer true f q | None => [] end.

Inductive infer_cand := IInput (that : bool) (i : nat) | ITable.   (* ITable: default_db._infer, a new database table *)

Definition infer_candidates (sc : scope) (id : ident) : list infer_cand :=
  match fst id with
  | [] => map (fun p => IInput (fst p) (snd p)) (frame_infer false (s_this sc) None ++ that_infer sc None)
  | [q] =>
      if leqb q s_this_name then map (fun p => IInput (fst p) (snd p)) (frame_infer false (s_this sc) None)
      else if leqb q s_that_name then map (fun p => IInput (fst p) (snd p)) (that_infer sc None)
      else if leqb q s_db_name then [ITable]
      else map (fun p => IInput (fst p) (snd p)) (frame_infer false (s_this sc) (Some q) ++ that_infer sc (Some q))
  | [q1; q2] =>
      if leqb q1 s_this_name then map (fun p => IInput (fst p) (snd p)) (frame_infer false (s_this sc) (Some q2))
      else if leqb q1 s_that_name then map (fun p => IInput (fst p) (snd p)) (that_infer sc (Some q2))
      else []
  | _ => []
  end.

(* ---- resolve_ident_core ---- *)

Inductive err := EUnknown | EAmbiguous | ENotAValue | ETooManyArgs | EUnknownNamed | ENotARelation | ETypeMismatch | ENotAType.

Inductive resolved :=
| RBound (c : cand)
| RInferred (i : infer_cand)
| RErr (e : err).

Definition resolve_from (cands : list cand) (infer : list infer_cand) : resolved :=
  match cands with
  | [c] => RBound c
  | _ :: _ :: _ => RErr EAmbiguous
  | [] =>
      match infer with
      | [i] => RInferred i
      | [] => RErr EUnknown
      | _ :: _ :: _ => RErr EAmbiguous
      end
  end.

Definition resolve (sc : scope) (id : ident) : resolved :=
  resolve_from (lookup sc id) (infer_candidates sc id).

(* ---- what the reference becomes in a scalar position (resolver/expr.rs fold_expr Ident; lowering.rs lower_expr) ---- *)

Inductive outcome :=
| OColumn (that : bool) (input : option nat) (pos : nat)   (* ColumnRef: a known column *)
| OInferredColumn (that : bool) (input : nat)             (* ColumnRef: a column inferred into input's table *)
| OTuple                                                   (* this / that / an input: all its columns *)
| OValue                                                   (* a `let` constant or parameter: substituted *)
| OPassthrough                                             (* Ident without target id -> s-string: the name reaches SQL *)
| ODropped                                                 (* the expression is removed by static evaluation before anything checks it *)
| OErr (e : err).

(* Two places where the code is expected to change shape soon (proposed repairs fixes/C10-F2-*.diff, C10-F3-*.diff).  The
   model is parameterised by what the source says NOW: Gen/GenC10Std.v defines [head_cfg] from semantic/lowering.rs and
   semantic/resolver/names.rs on every run (vplib/props/c10_std.py, fails closed on any other shape).
     cfg_that_rejected : lower_expr's ident arm also rejects the bare name `that` (C10-F2 repaired)
     cfg_parent_walk   : resolve_ident steps from the current module to its PARENT (drops the innermost module name) instead
                         of dropping the outermost one with pop_front (C10-F3 repaired)
     cfg_dead_case_checked : a module / relation name (or `that`) inside a `case` branch that static evaluation removes is
                         checked before the branch is removed (C10-F7 repaired: static_eval.rs calls expect_value)
     cfg_std_call_rejected : a call of an std operator without declared return type is not taken for a table where a relation is
                         required (C10-F4 repaired: validate_expr_type) *)
Record cfg := mkCfg { cfg_that_rejected : bool; cfg_parent_walk : bool; cfg_dead_case_checked : bool; cfg_std_call_rejected : bool }.

(* [interp] = the reference is an interpolated item of an s-string (lower_interpolations): the one place where a
   relation variable may be spliced in by name *)
Definition of_kind (interp : bool) (k : nkind) : outcome :=
  match k with
  | NFunc => OErr ENotAValue       (* "unexpected `func ..`" *)
  | NType => OErr ENotAValue       (* "expected a value, found a type" *)
  | NValue => OValue
  | NModule => OErr ENotAValue     (* lower_expr: "expected a value, but found module `m`" (a131b2a) *)
  | NTable => if interp then OPassthrough     (* s"... {tab} ...": the table name is spliced in, by design *)
              else OErr ENotAValue            (* "table variable cannot be used as a scalar value" (a131b2a) *)
  end.

Definition lower_that (c : cfg) (sc : scope) : outcome :=
  (* bare `that`: the joined frame inside a join condition; anywhere else the empty shadow module, which is gone
     from the root module by the time lower_expr looks the ident up -- neither a module nor relation-typed, so unless
     lower_expr tests for the name itself the unresolved-ident fallback passes the bare name `that` to SQL (C10-F2) *)
  match s_that sc with
  | Some _ => OTuple
  | None => if cfg_that_rejected c then OErr ENotAValue else OPassthrough
  end.

Definition lower_ref_in (c : cfg) (interp : bool) (sc : scope) (id : ident) : outcome :=
  match resolve sc id with
  | RBound (CDirect t p) => OColumn t None p
  | RBound (CInput t i p) => OColumn t (Some i) p
  | RBound (CSelf _ _) | RBound (CFrame false) => OTuple
  | RBound (CFrame true) => lower_that c sc
  | RBound (CRoot k) | RBound (CStd k) | RBound (CParam k) => of_kind interp k
  | RInferred (IInput t i) => OInferredColumn t i
  | RInferred ITable => if interp then OPassthrough else OErr ENotAValue   (* default_db.x: a relation, see NTable *)
  | RErr e => OErr e
  end.

Definition lower_ref (c : cfg) (sc : scope) (id : ident) : outcome := lower_ref_in c false sc id.

(* The reference as the value of a `case` branch that static evaluation removes (constant-false condition, or behind a
   constant-true one).  The resolver visits every branch, so whatever IT rejects (unknown / ambiguous names, functions, types,
   arguments) is rejected there too; what only lower_expr rejects -- a module, a relation variable, `default_db.x`, the bare
   `that` -- is rejected only if static evaluation checks the branch before removing it (C10-F7). *)
Definition checked_at_lowering (sc : scope) (id : ident) : bool :=
  match resolve sc id with
  | RBound (CRoot k) | RBound (CStd k) | RBound (CParam k) => match k with NModule | NTable => true | _ => false end
  | RBound (CFrame true) => match s_that sc with Some _ => false | None => true end
  | RInferred ITable => true
  | _ => false
  end.

Definition lower_ref_dead (c : cfg) (sc : scope) (id : ident) : outcome :=
  if negb (cfg_dead_case_checked c) && checked_at_lowering sc id then ODropped else lower_ref c sc id.

(* ---- properties of a scope used by the theorems ---- *)

Definition frame_closed (f : frame) : bool := forallb (fun x => negb (in_wild x)) (f_inputs f).
Definition scope_closed (sc : scope) : bool :=
  frame_closed (s_this sc) && match s_that sc with Some f => frame_closed f | None => true end.

(* the bare name is a column of the current frame(s) *)
Definition frame_has (f : frame) (n : str) : bool :=
  existsb (leqb n) (f_direct f) || existsb (fun x => existsb (leqb n) (in_cols x)) (f_inputs f).
Definition in_frames (sc : scope) (n : str) : bool :=
  frame_has (s_this sc) n || match s_that sc with Some f => frame_has f n | None => false end.

(* the bare name denotes something else than a column *)
Definition names_other (sc : scope) (n : str) : bool :=
  existsb (fun p => leqb n (fst p)) (s_root sc)
  || existsb (fun p => leqb n (fst p)) (s_param sc)
  || existsb (fun p => path_eqb [n] (fst p)) (s_std sc)
  || existsb (fun x => leqb n (in_name x)) (f_inputs (s_this sc))
  || match s_that sc with Some f => existsb (fun x => leqb n (in_name x)) (f_inputs f) | None => false end
  || leqb n s_this_name || leqb n s_that_name.

(* the bare name denotes a module or a relation variable: what the unresolved-ident fallback let through before a131b2a
   (finding C10-F1, fixed) and what is an error now *)
Definition is_modtab (k : nkind) : bool := match k with NModule | NTable => true | _ => false end.
Definition names_module_or_table (sc : scope) (n : str) : bool :=
  existsb is_modtab (assoc_all n (s_root sc))
  || existsb is_modtab (assoc_all n (s_param sc))
  || existsb is_modtab (std_all [n] (s_std sc)).

(* ---- function application ---- *)

Inductive pkind := PRel | PScalar | PFunc | PAny.     (* declared type of a positional parameter *)
Inductive akind := ARel | AScalar | AFunc.            (* what the argument expression is *)

Record fsig := mkSig { fs_params : list pkind; fs_named : list str }.

Inductive applied := Applied | Partial (missing : nat) | AErr (e : err).

Fixpoint first_unknown (named : list str) (allowed : list str) : option str :=
  match named with
  | [] => None
  | n :: named' => if existsb (leqb n) allowed then first_unknown named' allowed else Some n
  end.

Definition arg_ok (p : pkind) (a : akind) : option err :=
  match p, a with
  | PRel, AScalar => Some ENotARelation      (* lower_table_ref: not "a pipeline that resolves to a table" *)
  | PRel, AFunc => Some ENotARelation
  | PScalar, ARel => Some ETypeMismatch      (* validate_type *)
  | PFunc, ARel | PFunc, AScalar => Some ETypeMismatch
  | _, _ => None
  end.

Fixpoint args_ok (ps : list pkind) (args : list akind) : option err :=
  match ps, args with
  | p :: ps', a :: args' => match arg_ok p a with Some e => Some e | None => args_ok ps' args' end
  | _, _ => None
  end.

(* What the resolver takes a source-level argument for.  A call of an std operator whose declaration spells no return type
   (`math.abs 3`, `sum x`: the RqOperator has no type) was taken for a TABLE where a relation is expected --
   validate_expr_type "infers a table type" for every untyped expression -- until validate_expr_type tests for it (C10-F4). *)
Inductive sarg := SRel | SScalar | SFunc | SStdCall.
Definition seen (c : cfg) (a : sarg) : akind :=
  match a with
  | SRel => ARel
  | SScalar => AScalar
  | SFunc => AFunc
  | SStdCall => if cfg_std_call_rejected c then AScalar else ARel
  end.

(* What a bare or qualified name is when it stands in a relation position (the relation-typed parameters of
   from / join / append / intersect / remove, resolved in the `default_db` namespace).  resolve_function_args shadows
   `this` and `that` while relational arguments are resolved, so columns and input aliases are NOT candidates there;
   resolve_ident_core looks the name up directly first -- a root-level declaration (let-table, let-constant, function),
   a parameter or a std name hides the database -- and only a name that matches nothing becomes a database table
   (`default_db._infer`).  None = the lookup itself is an error (ambiguous). *)
Definition shadowed (sc : scope) : scope :=
  mkScope (s_root sc) (mkFrame [] []) None (s_param sc) (s_std sc).

Definition rel_arg_kind (sc : scope) (id : ident) : option akind :=
  match lookup (shadowed sc) id with
  | [] => Some ARel
  | [c] => Some (match c with
                 | CRoot NTable | CStd NTable | CParam NTable => ARel
                 | CRoot NFunc | CStd NFunc | CParam NFunc => AFunc
                 | _ => AScalar
                 end)
  | _ :: _ :: _ => None
  end.

(* apply_args_to_closure (every named argument must match a NAMED parameter -- positional parameter names do not count;
   of several unknown ones the alphabetically first is reported), then fold_function *)
Definition apply_fn (f : fsig) (args : list akind) (named : list str) : applied :=
  match first_unknown named (fs_named f) with
  | Some _ => AErr EUnknownNamed
  | None =>
      if Nat.ltb (length (fs_params f)) (length args) then AErr ETooManyArgs
      else if Nat.ltb (length args) (length (fs_params f)) then Partial (length (fs_params f) - length args)
      else match args_ok (fs_params f) args with
           | Some e => AErr e
           | None => Applied
           end
  end.

(* ---- declarations inside user modules: resolution relative to the enclosing modules (resolver/names.rs resolve_ident) ----
   A declaration inside `module m { module n { .. } }` is resolved with current_module_path = [m; n].  The path is
   prepended to the identifier and the result looked up in the root module; on failure the FIRST part is dropped
   (`ident.pop_front()`) and the lookup repeated, once per part of the path; at last the identifier is tried as written.
   In value positions every attempt is a full resolve_ident_core (0 / 1 / many + inference) and the first success wins;
   in relation positions (a default namespace applies: table references) an attempt succeeds when the lookup finds
   exactly one declaration -- added by d92afac; before it a table reference ignored the enclosing modules, so a sibling
   `let` constant or function named in `from` / `join` silently became a database table of that name.
   NB: dropping the first part turns m.n.x into n.x, not into the parent's m.x -- for paths of length >= 2 the
   declarations of proper ancestors are NOT found (finding C10-F3); [walk] mirrors whichever the code does ([cfg]). *)
Record mscope := mkMScope {
  ms_scope : scope;                       (* root names, frames, parameters, std *)
  ms_cur : list str;                      (* current_module_path *)
  ms_mods : list (list str * nkind) }.    (* declarations inside user modules, by full path: ["m"; "k"], ["m"; "n"; "r"] ... *)

(* Module::lookup of the root module, user modules included *)
Definition mlookup (mods : list (list str * nkind)) (sc : scope) (id : ident) : list cand :=
  lookup sc id
  ++ match fst id with
     | [] => []
     | _ :: _ => map CRoot (std_all (fst id ++ [snd id]) mods)
     end.

Definition arg_kind_of (c : cand) : akind :=
  match c with
  | CRoot NTable | CStd NTable | CParam NTable => ARel
  | CRoot NFunc | CStd NFunc | CParam NFunc => AFunc
  | _ => AScalar
  end.

(* the module paths resolve_ident tries, in order, for current_module_path = cur:
     pop_front (the code before the C10-F3 repair):  [m; n; o] -> [m; n; o], [n; o], [o]        (non-empty suffixes)
     parent walk (reference/spec/modules.md):        [m; n; o] -> [m; n; o], [m; n], [m]        (non-empty prefixes) *)
Fixpoint tails_ne (l : list str) : list (list str) :=
  match l with [] => [] | _ :: l' => l :: tails_ne l' end.
Definition inits_ne (l : list str) : list (list str) := map (@rev str) (tails_ne (rev l)).
Definition walk (c : cfg) (cur : list str) : list (list str) :=
  if cfg_parent_walk c then inits_ne cur else tails_ne cur.

(* the enclosing-modules step of a table reference: Some c = `found` *)
Fixpoint first_unique (mods : list (list str * nkind)) (sc : scope) (paths : list (list str)) (id : ident) : option cand :=
  match paths with
  | [] => None
  | p :: paths' =>
      match mlookup mods sc (p ++ fst id, snd id) with
      | [x] => Some x
      | _ => first_unique mods sc paths' id
      end
  end.

Definition rel_enclosing (c : cfg) (mods : list (list str * nkind)) (sc : scope) (cur : list str) (id : ident) : option cand :=
  first_unique mods sc (walk c cur) id.

(* what a name is in a relation position of a declaration inside modules; None = ambiguous *)
Definition rel_arg_kind_m (c : cfg) (ms : mscope) (id : ident) : option akind :=
  let sc := shadowed (ms_scope ms) in
  match rel_enclosing c (ms_mods ms) sc (ms_cur ms) id with
  | Some x => Some (arg_kind_of x)
  | None =>
      match mlookup (ms_mods ms) sc id with      (* resolve_ident_core(ident, Some(default_db)) *)
      | [] => Some ARel
      | [x] => Some (arg_kind_of x)
      | _ :: _ :: _ => None
      end
  end.

(* the same reference before d92afac: the enclosing modules were not consulted *)
Definition rel_arg_kind_m_before_d92afac (ms : mscope) (id : ident) : option akind :=
  match mlookup (ms_mods ms) (shadowed (ms_scope ms)) id with
  | [] => Some ARel
  | [c] => Some (arg_kind_of c)
  | _ :: _ :: _ => None
  end.

(* value positions *)
Definition resolve_core_m (mods : list (list str * nkind)) (sc : scope) (id : ident) : resolved :=
  resolve_from (mlookup mods sc id) (infer_candidates sc id).

Fixpoint first_resolved (mods : list (list str * nkind)) (sc : scope) (paths : list (list str)) (id : ident) : resolved :=
  match paths with
  | [] => resolve_core_m mods sc id                      (* at last the identifier as written *)
  | p :: paths' =>
      match resolve_core_m mods sc (p ++ fst id, snd id) with
      | RErr _ => first_resolved mods sc paths' id
      | r => r
      end
  end.

Definition resolve_enclosing (c : cfg) (mods : list (list str * nkind)) (sc : scope) (cur : list str) (id : ident) : resolved :=
  first_resolved mods sc (walk c cur) id.

Definition resolve_m (c : cfg) (ms : mscope) (id : ident) : resolved :=
  resolve_enclosing c (ms_mods ms) (ms_scope ms) (ms_cur ms) id.

Definition lower_ref_m (c : cfg) (ms : mscope) (id : ident) : outcome :=
  match resolve_m c ms id with
  | RBound (CDirect t p) => OColumn t None p
  | RBound (CInput t i p) => OColumn t (Some i) p
  | RBound (CSelf _ _) | RBound (CFrame false) => OTuple
  | RBound (CFrame true) => lower_that c (ms_scope ms)
  | RBound (CRoot k) | RBound (CStd k) | RBound (CParam k) => of_kind false k
  | RInferred (IInput t i) => OInferredColumn t i
  | RInferred ITable => OErr ENotAValue
  | RErr e => OErr e
  end.

(* ---- type names (resolver/expr.rs fold_type, TyKind::Ident) ----
   A type annotation that is an identifier (`func x <int> -> ..`, `let v <mytype> = ..`) is resolved with resolve_ident
   while `this` and `that` are SHADOWED by empty modules: the columns and inputs of the current frame are not in scope
   for type names, so a column spelled like a type cannot capture the annotation and a column name is never a type.
   The declaration found must be a type ("expected a type, but found ..."). *)
Inductive type_outcome := TOk | TErr (e : err).

Definition type_ref (sc : scope) (id : ident) : type_outcome :=
  match resolve (shadowed sc) id with
  | RBound (CRoot NType) | RBound (CStd NType) | RBound (CParam NType) => TOk
  | RBound _ => TErr ENotAType
  | RInferred _ => TErr ENotAType       (* default_db.x: inferred as a table, which is not a type *)
  | RErr e => TErr e
  end.

(* the name denotes a declaration (not a column, not an input) *)
Definition names_decl (sc : scope) (n : str) : bool :=
  existsb (fun p => leqb n (fst p)) (s_root sc)
  || existsb (fun p => leqb n (fst p)) (s_param sc)
  || existsb (fun p => path_eqb [n] (fst p)) (s_std sc)
  || leqb n s_this_name || leqb n s_that_name.

(* ---- columns excluded from a relation with unknown columns (finding C10-F6) ----
   `select !{a}` on an input that still has its wildcard leaves `LineageColumn::All { input, except: {a} }`: the frame does
   not know its columns, but it knows that `a` is not one of them.  Module::insert_frame does not carry `except` into the
   namespace and resolve_ident's `_infer` fallback (infer_decl) does not consult it, so [resolve] -- the faithful model --
   is the implementation; [lower_ref_x] is what the property demands.  (`group` uses the same `except` for its own
   bookkeeping -- the key columns of the inner frame, which ARE referenced through `_infer` -- so the exclusions meant here
   are those a user wrote with `select !{..}`; see design.d/C10.md, repair blocked.) *)
Definition excl := list (nat * str).          (* (index of the input in `this`, excluded column) *)

Definition excluded_inference (ex : excl) (sc : scope) (id : ident) : bool :=
  match resolve sc id with
  | RInferred (IInput false i) => existsb (fun p => Nat.eqb (fst p) i && leqb (snd id) (snd p)) ex
  | _ => false
  end.

Definition lower_ref_x (ex : excl) (c : cfg) (sc : scope) (id : ident) : outcome :=
  if excluded_inference ex sc id then OErr EUnknown else lower_ref c sc id.

(* ---- the names of a tuple's fields after `select` / `derive` (Lineage::apply_assign; finding C10-F5) ----
   A field is a column kept with the prefix of its relation (Some i, n) -- `x.id` -- or something named without one
   (None, n) -- an alias `id = ..`, a bare column.  apply_assign: "remove names from columns with the same name": an earlier
   field loses its name as soon as a LATER field has the same last name, whatever relation either belongs to.  That is
   what makes `derive {a = a + 1}` replace a; applied to `select {x.id, y.id}` it leaves ONE column called id (y's), x.id is
   unnamed, and the bare name is not ambiguous.  [unname_spec] compares the relation prefix too (the blocked repair). *)
Definition field := (option nat * str)%type.

Definition same_name (f g : field) : bool := leqb (snd f) (snd g).
Definition same_slot (f g : field) : bool :=
  same_name f g && match fst f, fst g with Some i, Some j => Nat.eqb i j | _, _ => true end.

Fixpoint unname (fs : list field) : list (option field) :=
  match fs with
  | [] => []
  | f :: r => (if existsb (same_name f) r then None else Some f) :: unname r
  end.

Fixpoint unname_spec (fs : list field) : list (option field) :=
  match fs with
  | [] => []
  | f :: r => (if existsb (same_slot f) r then None else Some f) :: unname_spec r
  end.

(* a field whose name is taken by a later field of ANOTHER relation and by no field of its own slot *)
Definition stolen (f : field) (r : list field) : bool := existsb (same_name f) r && negb (existsb (same_slot f) r).
Fixpoint dup_across (fs : list field) : bool :=
  match fs with [] => false | f :: r => stolen f r || dup_across r end.

(* how many fields answer to the bare name n afterwards *)
Definition named (n : str) (l : list (option field)) : nat :=
  length (filter (fun o => match o with Some f => leqb n (snd f) | None => false end) l).

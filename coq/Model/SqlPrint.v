(* Model of the SQL expression emission (sql/gen_expr.rs translate_expr, process_null,
   try_into_between, translate_binary_operator, translate_operand / needs_parentheses;
   sql/operators.rs translate_operator with the templates of std.sql.prql).
   Every number and template comes from Gen/GenSqlStrength.v and Gen/GenStdSql.v.
   The result is a decorated tree of the engine grammar (Model/SqlGrammar.v): Theta-1 speaks about
   exactly this tree, and [render_top] of it is byte-for-byte the emitted text (correspondence
   stream "sqltext").  Definitions only. *)
From Coq Require Import List NArith ZArith Bool Arith.
From PV Require Import Lib.ListX Model.Pratt Model.SqlGrammar Model.SqlTree Model.PrqlExpr Model.StaticEval
                       Gen.GenSqlStrength Gen.GenStdSql.
From PV Require Import Model.DateFormat.
From PV Require Gen.GenDialectFeat.     (* has_concat_function of every dialect (dialect.rs), regenerated on every run *)
Import ListNotations.

(* ---- needs_parentheses (gen_expr.rs) ---- *)
Definition needs_parens (child parent : nat) (is_left : bool) (pa : assoc3) : bool :=
  match Nat.compare child parent with
  | Gt => false
  | Lt => true
  | Eq => negb (match pa with A_Both => true | A_Left => is_left | A_Right => negb is_left | A_None => false end)
  end.

(* ---- constructs: what one RQ node becomes ---- *)
Record construct := { c_top : nat; c_sk : sdexpr; c_declared : nat }.

(* sqlparser BinaryOperator -> engine operator (its Display spelling is sop_text) *)
Definition sop_of_sqlbin (o : sqlbin) : option sop :=
  match o with
  | SB_Modulo => Some SMod | SB_Multiply => Some SMul | SB_Divide => Some SDiv
  | SB_Minus => Some SSub | SB_Plus => Some SAdd | SB_Gt => Some SGt | SB_Lt => Some SLt
  | SB_GtEq => Some SGe | SB_LtEq => Some SLe | SB_Eq => Some SEq | SB_NotEq => Some SNe
  | SB_And => Some SAnd | SB_Or => Some SOr | SB_StringConcat => Some SConcat
  end.

Definition hole (i req : nat) (il : bool) (a : assoc3) : sdexpr := DAtom (AHole i req il a).

Definition c_binary (o : sqlbin) : option construct :=
  match sop_of_sqlbin o with
  | Some so =>
      let s := sqlbin_strength o in let a := sqlbin_assoc o in
      Some {| c_top := 0; c_sk := DBin so 0 (hole 0 s true a) 0 (hole 1 s false a); c_declared := s |}
  | None => None
  end.

Definition c_isnull (negated : bool) : construct :=
  {| c_top := 0;
     c_sk := DBin (if negated then SIsNot else SIs) 0
                  (hole 0 expr_strength_isnull null_operand_is_left null_operand_assoc) 0 (DAtom (AText s_null));
     c_declared := expr_strength_isnull |}.

Definition c_between : option construct :=
  match between_operands with
  | [(il0, r0, a0); (il1, r1, a1); (il2, r2, a2)] =>
      Some {| c_top := 0;
              c_sk := DBin SBetween 0 (hole 0 r0 il0 a0) 0 (DBin SBand 0 (hole 1 r1 il1 a1) 0 (hole 2 r2 il2 a2));
              c_declared := expr_strength_between |}
  | _ => None
  end.

(* CASE: conditions and results go through translate_expr directly: never parenthesised *)
Fixpoint case_holes (n i : nat) : list (nat * sdexpr) :=
  match n with O => [] | S k => (0, hole i 0 false A_Both) :: case_holes k (S i) end.
Definition c_case (nargs : nat) (has_default : bool) : construct :=
  {| c_top := 0;
     c_sk := DCall FCase (case_holes nargs 0 ++ (if has_default then [] else [(0, DAtom (AText s_null))]));
     c_declared := expr_strength_default |}.

(* templates: find_operator_impl -- the dialect's module first, then the default definitions *)
Local Open Scope N_scope.
Definition n_std_prefix : str := [115;116;100;46].
Local Close Scope N_scope.
Definition find_template (dialect : str) (name : str) : option template :=
  match strip_prefix n_std_prefix name with
  | None => None
  | Some nm =>
      match find (fun t => leqb (t_module t) dialect && leqb (t_name t) nm) templates with
      | Some t => Some t
      | None => find (fun t => leqb (t_module t) [] && leqb (t_name t) nm) templates
      end
  end.
Definition c_template (t : template) : option construct :=
  match t_body t, t_skel t, t_coalesce t with
  | Some _, Some sk, None =>
      let st := declared_of t in let p := sk st in
      Some {| c_top := fst p; c_sk := snd p; c_declared := st |}
  | _, _, _ => None       (* unsupported for the dialect / not an expression of the engine grammar / aggregate *)
  end.

Local Open Scope N_scope.
Definition n_concat : str := [115;116;100;46;99;111;110;99;97;116].   (* std.concat: process_concat (below), never translate_binary_operator *)
Local Close Scope N_scope.
Definition lookup_binop (name : str) : option sqlbin :=
  if leqb name n_concat then None else option_map snd (find (fun p => leqb (fst p) name) operator_from_name).

(* ---- process_concat (gen_expr.rs): std.concat -- what an f-string lowers to, nested left to right -- is flattened
   (collect_concat_args) and becomes CONCAT(a, b, ...) on dialects with a CONCAT function, `a || b || ...` elsewhere.
   Every part goes through translate_expr, never through translate_operand: required strength 0 at every hole. *)
Fixpoint concat_args (r : rexpr) : list rexpr :=
  match r with
  | ROp n args => if leqb n n_concat then flat_map concat_args args else [r]
  | _ => [r]
  end.
Definition dialect_has_concat (dialect : str) : bool :=
  match find (fun p => leqb (fst p) dialect) GenDialectFeat.feats with
  | Some p => GenDialectFeat.has_concat_function (snd p)
  | None => true
  end.
Fixpoint concat_chain (acc : sdexpr) (i n : nat) : sdexpr :=
  match n with O => acc | S k => concat_chain (DBin SConcat 0 acc 0 (hole i 0 false A_Both)) (S i) k end.
Definition s_concat_fn : str := [67;79;78;67;65;84]%N.
Definition strength_of_concat : nat :=
  match find (fun b => match sop_of_sqlbin b with Some SConcat => true | _ => false end) sqlbin_all with
  | Some b => sqlbin_strength b | None => sqlbin_strength_default end.
Definition c_concat (has_fn : bool) (n : nat) : construct :=
  if has_fn then {| c_top := 0; c_sk := DCall (FName s_concat_fn) (case_holes n 0); c_declared := expr_strength_default |}
  else {| c_top := 0; c_sk := concat_chain (hole 0 0 true A_Both) 1 (pred n); c_declared := strength_of_concat |}.

(* ---- process_date_to_text (gen_expr.rs): the format, which must be a string literal, is translated into the
   dialect's format language (Model/DateFormat.v) and the call goes on to the template with the new literal ---- *)
Definition n_date_to_text : str := [115;116;100;46;100;97;116;101;46;116;111;95;116;101;120;116]%N.
Definition date_args (dialect : str) (name : str) (args : list rexpr) : option (list rexpr) :=
  if leqb name n_date_to_text then
    match args with
    | [RLit (LStr f); c] => option_map (fun f' => [RLit (LStr f'); c]) (date_fmt dialect f)
    | _ => None
    end
  else Some args.

(* which construct, applied to which RQ arguments (translate_expr's case analysis, in its order) *)
Definition select (dialect : str) (r : rexpr) : option (construct * list rexpr) :=
  match r with
  | RCol _ | RLit _ => None
  | RCase cs =>
      match rev cs with
      | (c, v) :: rest =>
          if is_true c then
            Some (c_case (2 * length rest + 1) true, flat_map (fun cv => [fst cv; snd cv]) (rev rest) ++ [v])
          else Some (c_case (2 * length cs) false, flat_map (fun cv => [fst cv; snd cv]) cs)
      | [] => Some (c_case 0 false, [])
      end
  | ROp name args =>
      if leqb name n_concat then
        let fl := concat_args r in
        if 2 <=? length fl then Some (c_concat (dialect_has_concat dialect) (length fl), fl) else None
      else
      match date_args dialect name args with
      | None => None
      | Some args =>
      let generic :=
        match lookup_binop name, args with
        | Some o, [a; b] => option_map (fun c => (c, [a; b])) (c_binary o)
        | _, _ => match find_template dialect name with
                  | Some t => option_map (fun c => (c, args)) (c_template t)
                  | None => None
                  end
        end in
      if leqb name n_eq || leqb name n_ne then
        match args with
        | [a; b] =>
            if is_null a || is_null b then
              Some (c_isnull (leqb name n_ne), [if is_null a then b else a])
            else generic
        | _ => generic
        end
      else if leqb name n_and_in then
        match args with
        | [ROp g [al; ar]; ROp l [bl; br]] =>
            if leqb g n_gte && leqb l n_lte then option_map (fun c => (c, [al; ar; br])) c_between else None
        | _ => None
        end
      else generic
      end
  end.

(* ---- literals and columns ---- *)
Local Open Scope N_scope.
Fixpoint digits (fuel : nat) (n : Z) (acc : str) : str :=
  match fuel with
  | O => acc
  | S f => let acc' := (48 + Z.to_N (n mod 10)) :: acc in
           if (n / 10 =? 0)%Z then acc' else digits f (n / 10)%Z acc'
  end.
Definition show_nat_z (z : Z) : str := digits 60 z [].
Definition show_z (z : Z) : str := if (z <? 0)%Z then 45 :: show_nat_z (- z) else show_nat_z z.
Fixpoint strip_trailing_zeros (rs : str) : str :=   (* on the reversed fractional digits *)
  match rs with 48 :: t => strip_trailing_zeros t | _ => rs end.
(* Rust `{:?}` of an f64 that is num / 2^k, for the moderate magnitudes the generators use *)
Definition show_float (num : Z) (k : N) : str :=
  let neg := (num <? 0)%Z in let a := Z.abs num in
  let scaled := (a * Z.pow 5 (Z.of_N k))%Z in         (* a / 2^k = scaled / 10^k *)
  let p10 := Z.pow 10 (Z.of_N k) in
  let ip := (scaled / p10)%Z in let fp := (scaled mod p10)%Z in
  let fd := if (k =? 0) then [] else
            (fix pad (n : nat) (s : str) := match n with O => s | S m => if (length s <? N.to_nat k)%nat then pad m (48 :: s) else s end)
              (N.to_nat k) (show_nat_z fp) in
  let fd' := rev (strip_trailing_zeros (rev fd)) in
  (if neg then [45] else []) ++ show_nat_z ip ++ 46 :: (match fd' with [] => [48] | _ => fd' end).

Definition quote_sql (s : str) : str := 39 :: flat_map (fun c => if c =? 39 then [39; 39] else [c]) s ++ [39].
Definition lit_text (l : lit) : str :=
  match l with
  | LNull => s_null
  | LInt z => show_z z
  | LFloat n k => show_float n k
  | LBool true => [116;114;117;101]
  | LBool false => [102;97;108;115;101]
  | LStr s => quote_sql s
  | LTemporal _ _ => []          (* no text model (DATE '..' / dialect-specific): translate gives None *)
  end.
Definition col_name (i : nat) : str := [97 + N.of_nat i].    (* a, b, c, ... *)
Local Close Scope N_scope.

(* translate_literal, strings: on dialects that read backslash escapes inside '...' (string_literal_backslash_escape:
   mysql, clickhouse, snowflake, redshift -- /repo d2c1667) every backslash is doubled, then every quote *)
Definition dialect_backslash (dialect : str) : bool :=
  match find (fun p => leqb (fst p) dialect) GenDialectFeat.feats with
  | Some p => GenDialectFeat.backslash_escape (snd p)
  | None => false
  end.
Definition lit_text_d (dialect : str) (l : lit) : str :=
  match l with
  | LStr s => quote_sql (if dialect_backslash dialect then flat_map (fun c => if N.eqb c 92 then [92; 92]%N else [c]) s else s)
  | _ => lit_text l
  end.

(* sql_ast::Expr::Value: a negative number may bind like a unary minus (gen_expr.rs, 83e82fa) *)
Definition lit_is_negative (l : lit) : bool :=
  match l with LInt z => (z <? 0)%Z | LFloat n _ => (n <? 0)%Z | _ => false end.
Definition negative_atom_strength : nat :=
  match negative_number_strength with Some s => s | None => expr_strength_default end.
Definition lit_strength (l : lit) : nat := if lit_is_negative l then negative_atom_strength else expr_strength_default.

(* ---- translate_expr ---- *)
Definition node := (nat * sdexpr * nat)%type.    (* top-level parentheses, tree, binding strength as the emitter sees it *)

Fixpoint map_opt {A B} (f : A -> option B) (l : list A) : option (list B) :=
  match l with
  | [] => Some []
  | x :: t => match f x, map_opt f t with Some y, Some ys => Some (y :: ys) | _, _ => None end
  end.

Definition place (kids : list node) (i req : nat) (il : bool) (a : assoc3) : nat * sdexpr :=
  match nth_error kids i with
  | Some (top, d, s) => ((if needs_parens s req il a then 1 else 0) + top, d)
  | None => (0, DAtom (AText []))
  end.

Fixpoint translate (dialect : str) (fuel : nat) (r : rexpr) : option node :=
  match fuel with
  | O => None
  | S f =>
    match r with
    | RCol i => Some (0, DAtom (AText (col_name i)), expr_strength_default)
    | RLit l => if is_temporal_lit l then None else Some (0, DAtom (AText (lit_text_d dialect l)), lit_strength l)
    | _ =>
        match select dialect r with
        | None => None
        | Some (c, args) =>
            match map_opt (translate dialect f) args with
            | None => None
            | Some kids => Some (c_top c, dsubst (place kids) (c_sk c), c_declared c)
            end
        end
    end
  end.

Definition sql_tree (dialect : str) (e : pexpr) : option (nat * sdexpr) :=
  let r := normalize (resolve e) in
  option_map (fun n => (fst (fst n), snd (fst n))) (translate dialect (rsize r) r).
Definition sql_text (dialect : str) (e : pexpr) : option str := option_map render_top (sql_tree dialect e).

Local Open Scope N_scope.
Definition d_sqlite : str := [115;113;108;105;116;101].
Definition d_generic : str := [103;101;110;101;114;105;99].

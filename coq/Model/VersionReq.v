(* semver::VersionReq as serde sees it (C15): Deserialize = `VersionReq::from_str` (semver 1.0.27 src/parse.rs),
   Serialize = `Display` (src/display.rs).  The parser below follows parse.rs function by function (prefix style: each
   function consumes a prefix and returns the rest); MAX_COMPARATORS = 32 is the fuel.
   Not modelled: pre-release and build metadata after the patch number (`1.2.3-alpha`, `1.2.3+b1`): the model rejects
   them (None), semver accepts them.
   Executable definitions only; lemmas in Proofs/VersionReqProofs.v. *)
From Coq Require Import List NArith Bool.
From PV Require Import Lib.ListX Model.Json.
Import ListNotations.
Local Open Scope N_scope.

Inductive vop := OpExact | OpGt | OpGe | OpLt | OpLe | OpTilde | OpCaret | OpWild.

Record cmp := mkCmp { cop : vop; cmaj : N; cmin : option N; cpat : option N }.

Definition u64_bound : N := 18446744073709551616.

Definition c_sp : N := 32.   Definition c_star : N := 42.  Definition c_plus : N := 43.  Definition c_comma : N := 44.
Definition c_dash : N := 45. Definition c_dot : N := 46.   Definition c_zero : N := 48.  Definition c_lt : N := 60.
Definition c_eq : N := 61.   Definition c_gt : N := 62.    Definition c_X : N := 88.     Definition c_caret : N := 94.
Definition c_x : N := 120.   Definition c_tilde : N := 126.

(* str::trim_start_matches(' ') *)
Fixpoint trim (s : str) : str :=
  match s with
  | c :: s' => if c =? c_sp then trim s' else s
  | [] => []
  end.

Definition strip (c : N) (s : str) : option str :=
  match s with
  | x :: s' => if x =? c then Some s' else None
  | [] => None
  end.

Definition wildcard (s : str) : option str :=
  match s with
  | c :: s' => if (c =? c_star) || (c =? c_x) || (c =? c_X) then Some s' else None
  | [] => None
  end.

(* the maximal prefix of digits *)
Fixpoint span_digits (s : str) : str * str :=
  match s with
  | c :: s' => if is_digit c then (c :: fst (span_digits s'), snd (span_digits s')) else ([], s)
  | [] => ([], [])
  end.

(* numeric_identifier: at least one digit, no leading zero, no u64 overflow *)
Definition num_ident (s : str) : option (N * str) :=
  match fst (span_digits s) with
  | [] => None
  | d :: ds' =>
      if (d =? c_zero) && negb (match ds' with [] => true | _ :: _ => false end) then None
      else match val_lsd (rev (d :: ds')) with
           | Some v => if v <? u64_bound then Some (v, snd (span_digits s)) else None
           | None => None
           end
  end.

(* op: (operator, rest, was it the default) *)
Definition parse_op (s : str) : vop * str * bool :=
  match s with
  | c :: r =>
      if c =? c_eq then (OpExact, r, false)
      else if c =? c_gt then
             match r with
             | c2 :: r2 => if c2 =? c_eq then (OpGe, r2, false) else (OpGt, r, false)
             | [] => (OpGt, r, false)
             end
      else if c =? c_lt then
             match r with
             | c2 :: r2 => if c2 =? c_eq then (OpLe, r2, false) else (OpLt, r, false)
             | [] => (OpLt, r, false)
             end
      else if c =? c_tilde then (OpTilde, r, false)
      else if c =? c_caret then (OpCaret, r, false)
      else (OpCaret, s, true)
  | [] => (OpCaret, s, true)
  end.

Definition is_some {A} (o : option A) : bool := match o with Some _ => true | None => false end.
Definition is_wild (o : vop) : bool := match o with OpWild => true | _ => false end.

Definition starts_pre_or_build (s : str) : bool :=
  match s with c :: _ => (c =? c_dash) || (c =? c_plus) | [] => false end.

(* minor: (minor, rest, has_wildcard, operator) *)
Definition parse_minor (dflt : bool) (op : vop) (t : str) : option (option N * str * bool * vop) :=
  match strip c_dot t with
  | Some t' =>
      match wildcard t' with
      | Some t'' => Some (None, t'', true, if dflt then OpWild else op)
      | None => match num_ident t' with
                | Some (mi, t'') => Some (Some mi, t'', false, op)
                | None => None
                end
      end
  | None => Some (None, t, false, op)
  end.

Definition parse_patch (dflt hasw : bool) (op : vop) (t : str) : option (option N * str * vop) :=
  match strip c_dot t with
  | Some t' =>
      match wildcard t' with
      | Some t'' => Some (None, t'', if dflt then OpWild else op)
      | None => if hasw then None
                else match num_ident t' with
                     | Some (pa, t'') => Some (Some pa, t'', op)
                     | None => None
                     end
      end
  | None => Some (None, t, op)
  end.

Definition parse_cmp (s : str) : option (cmp * str) :=
  match parse_op s with
  | (op, t, dflt) =>
      match num_ident (trim t) with
      | None => None
      | Some (maj, t1) =>
          match parse_minor dflt op t1 with
          | None => None
          | Some (mi, t2, hasw, op2) =>
              match parse_patch dflt hasw op2 t2 with
              | None => None
              | Some (pa, t3, op3) =>
                  if is_some pa && starts_pre_or_build t3 then None     (* pre-release / build: not modelled *)
                  else Some (mkCmp op3 maj mi pa, trim t3)
              end
          end
      end
  end.

(* version_req; fuel = MAX_COMPARATORS *)
Fixpoint parse_req (fuel : nat) (s : str) : option (list cmp) :=
  match fuel with
  | O => None
  | S f =>
      match parse_cmp s with
      | None => None
      | Some (c, t) =>
          match t with
          | [] => Some [c]
          | ch :: t' =>
              if ch =? c_comma
              then match parse_req f (trim t') with Some r => Some (c :: r) | None => None end
              else None
          end
      end
  end.

Definition max_comparators : nat := 32.

Definition vreq_parse (t : str) : option (list cmp) :=
  match wildcard (trim t) with
  | Some r => match trim r with [] => Some [] | _ :: _ => None end
  | None => parse_req max_comparators (trim t)
  end.

(* ---- Display ---- *)
Definition print_op (o : vop) : str :=
  match o with
  | OpExact => [c_eq] | OpGt => [c_gt] | OpGe => [c_gt; c_eq] | OpLt => [c_lt] | OpLe => [c_lt; c_eq]
  | OpTilde => [c_tilde] | OpCaret => [c_caret] | OpWild => []
  end.

Definition wild_suffix (o : vop) : str := if is_wild o then [c_dot; c_star] else [].

Definition print_cmp (c : cmp) : str :=
  print_op (cop c) ++ print_dec (cmaj c) ++
  match cmin c with
  | Some mi => c_dot :: print_dec mi ++
               match cpat c with
               | Some pa => c_dot :: print_dec pa
               | None => wild_suffix (cop c)
               end
  | None => wild_suffix (cop c)
  end.

Fixpoint print_cmps (l : list cmp) : str :=
  match l with
  | [] => []
  | c :: l' => match l' with
               | [] => print_cmp c
               | _ :: _ => print_cmp c ++ c_comma :: c_sp :: print_cmps l'
               end
  end.

Definition vreq_print (l : list cmp) : str :=
  match l with [] => [c_star] | _ :: _ => print_cmps l end.

(* ---- the values `from_str` can return ---- *)
Definition opt_lt (o : option N) : bool := match o with Some n => n <? u64_bound | None => true end.

Definition cmp_wf (c : cmp) : bool :=
  (cmaj c <? u64_bound) && opt_lt (cmin c) && opt_lt (cpat c)
  && match cpat c with Some _ => is_some (cmin c) && negb (is_wild (cop c)) | None => true end.

Definition vreq_wf (l : list cmp) : bool := forallb cmp_wf l && Nat.leb (length l) max_comparators.

(* a text is normal when it is the Display form of what it parses to: the texts serde ever WRITES *)
Definition vreq_normal (t : str) : bool :=
  match vreq_parse t with Some r => leqb (vreq_print r) t | None => false end.

(* what serde's de . ser does to a text *)
Definition vreq_normalise (t : str) : option str :=
  match vreq_parse t with Some r => Some (vreq_print r) | None => None end.

(* semver::VersionReq as serde sees it (C15): Deserialize = `VersionReq::from_str` (semver 1.0.27 src/parse.rs),
   Serialize = `Display` (src/display.rs).  The parser below follows parse.rs function by function (prefix style: each
   function consumes a prefix and returns the rest); MAX_COMPARATORS = 32 is the fuel.
   Pre-release identifiers after the patch number are part of the value (`1.2.3-alpha.1`); build metadata (`+b1`) is
   parsed, checked and dropped, as in semver (a Comparator has no build field).
   Executable definitions only; lemmas in Proofs/VersionReqProofs.v. *)
From Coq Require Import List NArith Bool.
From PV Require Import Lib.ListX Model.Json.
Import ListNotations.
Local Open Scope N_scope.

Inductive vop := OpExact | OpGt | OpGe | OpLt | OpLe | OpTilde | OpCaret | OpWild.

Record cmp := mkCmp { cop : vop; cmaj : N; cmin : option N; cpat : option N; cpre : str (* [] = none *) }.

Definition u64_bound : N := 18446744073709551616.

Definition c_sp : N := 32.   Definition c_star : N := 42.  Definition c_plus : N := 43.  Definition c_comma : N := 44.
Definition c_dash : N := 45. Definition c_dot : N := 46.   Definition c_zero : N := 48.  Definition c_lt : N := 60.
Definition c_eq : N := 61.   Definition c_gt : N := 62.    Definition c_X : N := 88.     Definition c_caret : N := 94.
Definition c_x : N := 120.   Definition c_tilde : N := 126.

(* str::trim_start_matches(' ') *)
Fixpoint trim (s : str) : str :=
  match s with
  | c :: s' => if c =? c_sp then trim s' else s
  | [] => []
  end.

Definition strip (c : N) (s : str) : option str :=
  match s with
  | x :: s' => if x =? c then Some s' else None
  | [] => None
  end.

Definition wildcard (s : str) : option str :=
  match s with
  | c :: s' => if (c =? c_star) || (c =? c_x) || (c =? c_X) then Some s' else None
  | [] => None
  end.

(* the maximal prefix of digits *)
Fixpoint span_digits (s : str) : str * str :=
  match s with
  | c :: s' => if is_digit c then (c :: fst (span_digits s'), snd (span_digits s')) else ([], s)
  | [] => ([], [])
  end.

(* numeric_identifier: at least one digit, no leading zero, no u64 overflow *)
Definition num_ident (s : str) : option (N * str) :=
  match fst (span_digits s) with
  | [] => None
  | d :: ds' =>
      if (d =? c_zero) && negb (match ds' with [] => true | _ :: _ => false end) then None
      else match val_lsd (rev (d :: ds')) with
           | Some v => if v <? u64_bound then Some (v, snd (span_digits s)) else None
           | None => None
           end
  end.

(* op: (operator, rest, was it the default) *)
Definition parse_op (s : str) : vop * str * bool :=
  match s with
  | c :: r =>
      if c =? c_eq then (OpExact, r, false)
      else if c =? c_gt then
             match r with
             | c2 :: r2 => if c2 =? c_eq then (OpGe, r2, false) else (OpGt, r, false)
             | [] => (OpGt, r, false)
             end
      else if c =? c_lt then
             match r with
             | c2 :: r2 => if c2 =? c_eq then (OpLe, r2, false) else (OpLt, r, false)
             | [] => (OpLt, r, false)
             end
      else if c =? c_tilde then (OpTilde, r, false)
      else if c =? c_caret then (OpCaret, r, false)
      else (OpCaret, s, true)
  | [] => (OpCaret, s, true)
  end.

Definition is_some {A} (o : option A) : bool := match o with Some _ => true | None => false end.
Definition is_wild (o : vop) : bool := match o with OpWild => true | _ => false end.

(* ---- identifier(): dot-separated segments of [0-9A-Za-z-]; no empty segment; in a pre-release a numeric segment has
   no leading zero.  semver scans segment by segment; equivalently: take the maximal run of identifier characters and dots,
   split it at the dots, check every segment.  (An empty run is `Ok("")` there and an error in the caller: None here.) ---- *)
Definition is_ident_char (c : N) : bool :=
  is_digit c || ((65 <=? c) && (c <=? 90)) || ((97 <=? c) && (c <=? 122)) || (c =? c_dash).
Definition is_ident_or_dot (c : N) : bool := is_ident_char c || (c =? c_dot).

Fixpoint span_by (p : N -> bool) (s : str) : str * str :=
  match s with
  | c :: s' => if p c then (c :: fst (span_by p s'), snd (span_by p s')) else ([], s)
  | [] => ([], [])
  end.

Fixpoint split_on (c : N) (s : str) : list str :=
  match s with
  | [] => [[]]
  | x :: s' => if x =? c then [] :: split_on c s'
               else match split_on c s' with h :: t => (x :: h) :: t | [] => [[x]] end
  end.

Definition seg_ok (pre : bool) (seg : str) : bool :=
  match seg with
  | [] => false
  | d :: r => negb (pre && (d =? c_zero) && negb (match r with [] => true | _ :: _ => false end) && forallb is_digit seg)
  end.

Definition ident_valid (pre : bool) (body : str) : bool :=
  forallb is_ident_or_dot body && forallb (seg_ok pre) (split_on c_dot body).

Definition identifier (pre : bool) (s : str) : option (str * str) :=
  let body := fst (span_by is_ident_or_dot s) in
  if forallb (seg_ok pre) (split_on c_dot body) then Some (body, snd (span_by is_ident_or_dot s)) else None.

Definition parse_pre (has_patch : bool) (t : str) : option (str * str) :=
  match t with
  | c :: t' => if has_patch && (c =? c_dash) then identifier true t' else Some ([], t)
  | [] => Some ([], t)
  end.

Definition parse_build (has_patch : bool) (t : str) : option str :=
  match t with
  | c :: t' => if has_patch && (c =? c_plus)
               then match identifier false t' with Some (_, r) => Some r | None => None end
               else Some t
  | [] => Some t
  end.

(* minor: (minor, rest, has_wildcard, operator) *)
Definition parse_minor (dflt : bool) (op : vop) (t : str) : option (option N * str * bool * vop) :=
  match strip c_dot t with
  | Some t' =>
      match wildcard t' with
      | Some t'' => Some (None, t'', true, if dflt then OpWild else op)
      | None => match num_ident t' with
                | Some (mi, t'') => Some (Some mi, t'', false, op)
                | None => None
                end
      end
  | None => Some (None, t, false, op)
  end.

Definition parse_patch (dflt hasw : bool) (op : vop) (t : str) : option (option N * str * vop) :=
  match strip c_dot t with
  | Some t' =>
      match wildcard t' with
      | Some t'' => Some (None, t'', if dflt then OpWild else op)
      | None => if hasw then None
                else match num_ident t' with
                     | Some (pa, t'') => Some (Some pa, t'', op)
                     | None => None
                     end
      end
  | None => Some (None, t, op)
  end.

Definition parse_cmp (s : str) : option (cmp * str) :=
  match parse_op s with
  | (op, t, dflt) =>
      match num_ident (trim t) with
      | None => None
      | Some (maj, t1) =>
          match parse_minor dflt op t1 with
          | None => None
          | Some (mi, t2, hasw, op2) =>
              match parse_patch dflt hasw op2 t2 with
              | None => None
              | Some (pa, t3, op3) =>
                  match parse_pre (is_some pa) t3 with
                  | None => None
                  | Some (pre, t4) =>
                      match parse_build (is_some pa) t4 with
                      | None => None
                      | Some t5 => Some (mkCmp op3 maj mi pa pre, trim t5)
                      end
                  end
              end
          end
      end
  end.

(* version_req; fuel = MAX_COMPARATORS *)
Fixpoint parse_req (fuel : nat) (s : str) : option (list cmp) :=
  match fuel with
  | O => None
  | S f =>
      match parse_cmp s with
      | None => None
      | Some (c, t) =>
          match t with
          | [] => Some [c]
          | ch :: t' =>
              if ch =? c_comma
              then match parse_req f (trim t') with Some r => Some (c :: r) | None => None end
              else None
          end
      end
  end.

Definition max_comparators : nat := 32.

Definition vreq_parse (t : str) : option (list cmp) :=
  match wildcard (trim t) with
  | Some r => match trim r with [] => Some [] | _ :: _ => None end
  | None => parse_req max_comparators (trim t)
  end.

(* ---- Display ---- *)
Definition print_op (o : vop) : str :=
  match o with
  | OpExact => [c_eq] | OpGt => [c_gt] | OpGe => [c_gt; c_eq] | OpLt => [c_lt] | OpLe => [c_lt; c_eq]
  | OpTilde => [c_tilde] | OpCaret => [c_caret] | OpWild => []
  end.

Definition wild_suffix (o : vop) : str := if is_wild o then [c_dot; c_star] else [].

Definition print_cmp (c : cmp) : str :=
  print_op (cop c) ++ print_dec (cmaj c) ++
  match cmin c with
  | Some mi => c_dot :: print_dec mi ++
               match cpat c with
               | Some pa => c_dot :: print_dec pa ++ match cpre c with [] => [] | _ :: _ => c_dash :: cpre c end
               | None => wild_suffix (cop c)
               end
  | None => wild_suffix (cop c)
  end.

Fixpoint print_cmps (l : list cmp) : str :=
  match l with
  | [] => []
  | c :: l' => match l' with
               | [] => print_cmp c
               | _ :: _ => print_cmp c ++ c_comma :: c_sp :: print_cmps l'
               end
  end.

Definition vreq_print (l : list cmp) : str :=
  match l with [] => [c_star] | _ :: _ => print_cmps l end.

(* ---- the values `from_str` can return ---- *)
Definition opt_lt (o : option N) : bool := match o with Some n => n <? u64_bound | None => true end.

Definition cmp_wf (c : cmp) : bool :=
  (cmaj c <? u64_bound) && opt_lt (cmin c) && opt_lt (cpat c)
  && match cpat c with Some _ => is_some (cmin c) && negb (is_wild (cop c)) | None => true end
  && match cpre c with [] => true | _ :: _ => is_some (cpat c) && ident_valid true (cpre c) end.

Definition vreq_wf (l : list cmp) : bool := forallb cmp_wf l && Nat.leb (length l) max_comparators.

(* a text is normal when it is the Display form of what it parses to: the texts serde ever WRITES *)
Definition vreq_normal (t : str) : bool :=
  match vreq_parse t with Some r => leqb (vreq_print r) t | None => false end.

(* what serde's de . ser does to a text *)
Definition vreq_normalise (t : str) : option str :=
  match vreq_parse t with Some r => Some (vreq_print r) | None => None end.

(* C12/C13: Rust's failing primitives made explicit.  A model function written against these
   returns [Panic] exactly where the Rust code panics in a build with overflow checks (the debug
   profile, which is what the harness links), [Fail] where it returns Err(_), [Ret v] otherwise.
   Executable definitions only; lemmas are in Proofs/CheckedProofs.v. *)
From Coq Require Import List ZArith NArith Bool.
Import ListNotations.
Local Open Scope Z_scope.

Inductive out (A : Type) : Type := Ret (a : A) | Fail | Panic.
Arguments Ret {A} a.
Arguments Fail {A}.
Arguments Panic {A}.

Definition bind {A B : Type} (x : out A) (f : A -> out B) : out B :=
  match x with Ret a => f a | Fail => Fail | Panic => Panic end.
Notation "x <- e1 ;; e2" := (bind e1 (fun x => e2)) (at level 61, e1 at next level, right associativity).

Definition is_panic {A : Type} (x : out A) : bool := match x with Panic => true | _ => false end.
Definition is_ret {A : Type} (x : out A) : bool := match x with Ret _ => true | _ => false end.

(* ---- i64 ---- *)
Definition i64_min : Z := - 9223372036854775808.
Definition i64_max : Z := 9223372036854775807.
Definition in_i64 (z : Z) : bool := (i64_min <=? z) && (z <=? i64_max).
Definition chk64 (z : Z) : out Z := if in_i64 z then Ret z else Panic.
Definition add64 (a b : Z) : out Z := chk64 (a + b).
Definition sub64 (a b : Z) : out Z := chk64 (a - b).
Definition mul64 (a b : Z) : out Z := chk64 (a * b).
Definition neg64 (a : Z) : out Z := chk64 (- a).
(* i64::checked_add / checked_sub / checked_mul / checked_neg: None on overflow, never a panic *)
Definition opt64 (z : Z) : option Z := if in_i64 z then Some z else None.
Definition checked_add64 (a b : Z) : option Z := opt64 (a + b).
Definition checked_sub64 (a b : Z) : option Z := opt64 (a - b).
Definition checked_mul64 (a b : Z) : option Z := opt64 (a * b).
Definition checked_neg64 (a : Z) : option Z := opt64 (- a).
(* i64::min never fails *)
Definition min64 (a b : Z) : Z := Z.min a b.

(* ---- usize (64-bit targets) ---- *)
Definition usize_max : Z := 18446744073709551615.
Definition in_usize (z : Z) : bool := (0 <=? z) && (z <=? usize_max).
Definition chkus (z : Z) : out Z := if in_usize z then Ret z else Panic.
Definition addus (a b : Z) : out Z := chkus (a + b).
Definition subus (a b : Z) : out Z := chkus (a - b).
Definition mulus (a b : Z) : out Z := chkus (a * b).

(* ---- u16 (source ids): `(index + 1) as u16` is a wrapping cast, never a panic ---- *)
Definition as_u16 (z : Z) : Z := z mod 65536.
(* u16 width arithmetic of the formatter (codegen/mod.rs): saturating_add / checked_sub / u16::try_from(usize) never
   panic; `a * b` on u16 panics on overflow in a build with overflow checks *)
Definition u16_max : Z := 65535.
Definition in_u16 (z : Z) : bool := (0 <=? z) && (z <=? u16_max).
Definition sat_add16 (a b : Z) : Z := Z.min u16_max (a + b).
Definition checked_sub16 (a b : Z) : option Z := if b <=? a then Some (a - b) else None.
Definition try_from16 (w : Z) : option Z := if in_u16 w then Some w else None.
Definition mul16 (a b : Z) : out Z := if in_u16 (a * b) then Ret (a * b) else Panic.
Definition sat_mul16 (a b : Z) : Z := Z.min u16_max (a * b).
(* i64::unsigned_abs : u64 -- total (|i64::MIN| = 2^63 fits u64) *)
Definition unsigned_abs64 (a : Z) : Z := Z.abs a.

(* ---- Option / Result / assert ---- *)
Definition unwrap {A : Type} (o : option A) : out A := match o with Some a => Ret a | None => Panic end.
Definition expect {A : Type} (o : option A) : out A := unwrap o.
Definition assert (b : bool) : out unit := if b then Ret tt else Panic.
Definition todo {A : Type} : out A := Panic.
Definition ok_or {A : Type} (o : option A) : out A := match o with Some a => Ret a | None => Fail end.

(* ---- slices: v[i], v[a..b], v[..b] ---- *)
Definition index {A : Type} (l : list A) (i : nat) : out A := unwrap (nth_error l i).
Definition slice {A : Type} (l : list A) (a b : nat) : out (list A) :=
  if (Nat.leb a b) && (Nat.leb b (length l)) then Ret (firstn (b - a) (skipn a l)) else Panic.
Definition slice_to {A : Type} (l : list A) (b : nat) : out (list A) := slice l 0 b.

(* C08 / C09 -- model of the quoting code prqlc delegates to:
   sqlparser 0.60  ast::value::EscapeQuotedString::fmt  (src/ast/value.rs:436), as called by
   Value::SingleQuotedString(s) Display  (quote = apostrophe)        -- prqlc gen_expr.rs translate_literal
   Ident::with_quote(q, s) Display       (quote = q, written q..q)   -- prqlc gen_expr.rs translate_ident_part

   The Rust loop walks the characters with a one-character look-ahead and a `previous_char`:
     ch == quote, previous_char == backslash : the quote is taken to be already escaped: emitted once;
                                           (`continue`: previous_char is NOT updated, so a whole run of
                                           quotes after a backslash is emitted un-doubled)
     ch == quote, next char == quote     : both are taken to be an already doubled quote: emitted as is
     ch == quote otherwise               : emitted twice
     any other ch                        : emitted once
   Executable definitions only; proofs are in Proofs/EscapeProofs.v.  Validated against the real
   Display by the exhaustive correspondence stream of vplib/props/c08.py (harness `escape`). *)
From Coq Require Import List NArith Bool.
From PV Require Import Lib.ListX.
Import ListNotations.
Local Open Scope N_scope.

Definition QUOTE : N := 39.      (* ' *)
Definition DQUOTE : N := 34.     (* double quote *)
Definition BACKTICK : N := 96.   (* ` *)
Definition BSLASH : N := 92.     (* \ *)

Fixpoint esc (q prev : N) (s : str) : str :=
  match s with
  | [] => []
  | c :: r =>
      if c =? q then
        if prev =? BSLASH then c :: esc q prev r
        else match r with
             | c2 :: r2 => if c2 =? q then c :: c2 :: esc q c r2 else c :: c :: esc q c r
             | [] => [c; c]
             end
      else c :: esc q c r
  end.

(* sqlparser's Display of Value::SingleQuotedString(s) -- applied by prqlc to the PRE-DOUBLED literal value
   (emit_literal_string below) and, unchanged, to date/time texts *)
Definition emit_string (s : str) : str := QUOTE :: esc QUOTE 0 s ++ [QUOTE].
(* what Ident::with_quote(q, s) prints, q one of DQUOTE, QUOTE, BACKTICK *)
Definition emit_quoted (q : N) (s : str) : str := q :: esc q 0 s ++ [q].

(* the specification of quoting: every quote character doubled *)
Fixpoint dbl (q : N) (s : str) : str :=
  match s with
  | [] => []
  | c :: r => if c =? q then c :: c :: dbl q r else c :: dbl q r
  end.

(* two-character substring test *)
Fixpoint contains2 (a b : N) (s : str) : bool :=
  match s with
  | x :: r => match r with
              | y :: _ => ((x =? a) && (y =? b)) || contains2 a b r
              | [] => false
              end
  | [] => false
  end.

(* The class of values on which EscapeQuotedString ALONE does not double every quote (why findings F6 / F18 existed):
   the value contains  q q  or  \ q . *)
Definition esc_known (q : N) (s : str) : bool := contains2 q q s || contains2 BSLASH q s.

(* the same condition in the shape the Rust loop tests it (used by the proofs) *)
Fixpoint good (q prev : N) (s : str) : bool :=
  match s with
  | [] => true
  | c :: r =>
      if c =? q then
        negb (prev =? BSLASH) && match r with c2 :: _ => negb (c2 =? q) | [] => true end && good q c r
      else good q c r
  end.

(* What prqlc does NOW (fix commits e3af91e for string literals, 68466ba for identifiers): it doubles every
   quote character itself -- s.replace(q, qq) -- and hands the result to the same sqlparser Display, which then
   finds only already-doubled quotes and prints them unchanged (Proofs/EscapeProofs.v, esc_dbl).
   Since fix d2c1667 translate_literal first doubles every backslash -- s.replace('\\', "\\\\") -- when the dialect
   handler answers string_literal_backslash_escape() (flag bs below; which dialects: Gen/GenLiteral.v
   writer_backslash_doubling, regenerated from sql/dialect.rs). *)
Definition prep_literal (bs : bool) (s : str) : str := dbl QUOTE (if bs then dbl BSLASH s else s).
Definition emit_literal_string (bs : bool) (s : str) : str := emit_string (prep_literal bs s).   (* translate_literal, String / RawString *)
(* PROPOSED, not what prqlc does (fixes/F6c-bigquery-string-literals.diff): for a dialect that has no '' (BigQuery)
   every backslash is doubled and every quote is written backslash-quote, then the same sqlparser Display *)
Fixpoint prep_literal_bq (s : str) : str :=
  match s with
  | [] => []
  | c :: r => if c =? BSLASH then BSLASH :: BSLASH :: prep_literal_bq r
              else if c =? QUOTE then BSLASH :: QUOTE :: prep_literal_bq r
              else c :: prep_literal_bq r
  end.
Definition emit_literal_string_bq (s : str) : str := emit_string (prep_literal_bq s).
Definition emit_ident_quoted (q : N) (s : str) : str := emit_quoted q (dbl q s).   (* translate_ident_part, quoted form *)

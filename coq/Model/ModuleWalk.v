(* C06 (modules): WHERE the relative references of a declaration are resolved, on top of C10's Model/Scope.v (read-only:
   `walk`, `mlookup`, `rel_enclosing`, `resolve_enclosing` model semantic/resolver/names.rs resolve_ident as repaired by
   d92afac and 7f02b48).  Two additions the rewrite "move declarations into a module" needs:
     found_at   the MODULE in which the walk of a table reference finds its target (Scope.v returns the candidate's kind only);
                proved to be the same search as Scope.rel_enclosing (Proofs/ModuleWalkProofs.v);
     body_cur   the module path in effect when the references of a declaration's body are resolved: a let-table is
                resolved where it is DECLARED (resolver/stmt.rs folds the declaration inside its module), the body of a
                function where the function is CALLED (the closure is materialised by fold_function at the call site,
                with the caller's current_module_path) -- finding F60b.
   Definitions only. *)
From Coq Require Import List Bool.
From PV Require Import Lib.ListX Model.Scope.
Import ListNotations.

Definition unique_at (mods : list (list str * nkind)) (sc : scope) (id : ident) (p : list str) : bool :=
  match mlookup mods sc (p ++ fst id, snd id) with [_] => true | _ => false end.

(* the module path at which the enclosing-modules step of a table reference finds the name *)
Definition found_at (c : cfg) (mods : list (list str * nkind)) (sc : scope) (cur : list str) (id : ident) : option (list str) :=
  find (unique_at mods sc id) (walk c cur).

Inductive decl_kind := DLetTable | DFunction.

(* current_module_path while the body of a declaration made in module `decl_path` is resolved, for a use from `caller_path` *)
Definition body_cur (k : decl_kind) (decl_path caller_path : list str) : list str :=
  match k with DLetTable => decl_path | DFunction => caller_path end.

(* what a relative name in the body of a function declared in `decl_path` means when the function is called from `caller_path` *)
Definition body_ref (c : cfg) (mods : list (list str * nkind)) (sc : scope) (k : decl_kind) (decl_path caller_path : list str) (id : ident) : resolved :=
  resolve_enclosing c mods sc (body_cur k decl_path caller_path) id.

(* plain data for the correspondence run: 0 bound to a function, 1 bound to something else, 2 inferred column, 3 unknown, 4 ambiguous, 5 other error *)
Definition show_resolved (r : resolved) : nat :=
  match r with
  | RBound (CRoot NFunc) => 0
  | RBound _ => 1
  | RInferred _ => 2
  | RErr EUnknown => 3
  | RErr EAmbiguous => 4
  | RErr _ => 5
  end.

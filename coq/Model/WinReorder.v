(* C04 -- model of sql/pq/preprocess.rs `reorder` (reorder_inner): column definitions (Compute) are bubbled towards
   the front of the pipeline over the transforms they may be computed in front of.
   A pipeline is reduced to what the function looks at: the kind of each transform and, for a Compute, its
   complexity (sql/pq/anchor.rs infer_complexity); every item carries a tag (its position in the input) so that the
   result can be compared with the implementation's (hook `verif:preprocess`, pass "reorder").
   Executable definitions only; proofs in Proofs/WinReorderProofs.v, statements in Props/C04.v. *)
From Coq Require Import List NArith Bool.
From PV Require Import Lib.ListX Model.WindowFns.
Import ListNotations.

Inductive rkind :=
| RFrom                    (* SqlTransform::From *)
| RJoin                    (* SqlTransform::Join *)
| RCompute (c : cx)        (* Super(Compute), with infer_complexity *)
| RSort                    (* Super(Sort) *)
| RTake                    (* Super(Take) *)
| ROther.                  (* anything else: Super(Filter / Aggregate / Select / Append / Loop ..), Distinct, DistinctOn,
                              SqlTransform::Sort, Union / Except / Intersect *)
Definition ritem := (N * rkind)%type.

(* the arms of `let should_swap = match prev { .. }` that are not constant `false` by construction; Gen/GenWindow.v
   carries what the source says now (reorder_before_take / _sort / _other) *)
Record reorder_policy := mk_reorder_policy { rp_take : cx -> bool; rp_sort : bool; rp_other : bool }.

(* preprocess.rs at /repo HEAD: Sort => true, Take if infer_complexity(compute) == Plain => true, _ => false *)
Definition model_reorder_policy : reorder_policy := mk_reorder_policy (fun c => cx_eqb c CPlain) true false.

Definition should_swap (pol : reorder_policy) (c : cx) (prev : rkind) : bool :=
  match prev with
  | RFrom | RJoin | RCompute _ => false          (* "don't reorder with From or Join or another Compute" *)
  | RSort => rp_sort pol
  | RTake => rp_take pol c
  | ROther => rp_other pol
  end.

(* the inner loop `for j in 0..(i - 1)`: the Compute x (complexity c) standing behind the already processed
   prefix, given back to front, moves over its predecessors while should_swap says so; the bound i - 1 means the
   first transform of the pipeline is never swapped with *)
Fixpoint sink (pol : reorder_policy) (c : cx) (x : ritem) (rev_pre : list ritem) : list ritem :=
  match rev_pre with
  | [] => [x]
  | p :: rest =>
      match rest with
      | [] => x :: rev_pre
      | _ :: _ => if should_swap pol c (snd p) then p :: sink pol c x rest else x :: rev_pre
      end
  end.

(* the outer loop `for i in 1..pipeline.len()`: position 0 is never looked at; a transform that is not a Compute stays *)
Definition reorder_step (pol : reorder_policy) (rev_pre : list ritem) (x : ritem) : list ritem :=
  match rev_pre, snd x with
  | _ :: _, RCompute c => sink pol c x rev_pre
  | _, _ => x :: rev_pre
  end.

Definition reorder (pol : reorder_policy) (p : list ritem) : list ritem := rev (fold_left (reorder_step pol) p []).

(* ---- what the property needs of it ---- *)
(* one swap of the kind the loop performs: a Compute moves in front of its left neighbour, which it may cross *)
Inductive rstep (pol : reorder_policy) : list ritem -> list ritem -> Prop :=
| rstep_swap l1 x y c l2 : snd y = RCompute c -> should_swap pol c (snd x) = true ->
    rstep pol (l1 ++ x :: y :: l2) (l1 ++ y :: x :: l2).
Inductive rreach (pol : reorder_policy) : list ritem -> list ritem -> Prop :=
| rreach_refl l : rreach pol l l
| rreach_step l m r : rstep pol l m -> rreach pol m r -> rreach pol l r.

(* SPECIFICATION: transforms that change which rows there are (or define columns) -- everything but a sort; and
   column definitions whose value does not depend on the other rows *)
Definition is_sort (k : rkind) : bool := match k with RSort => true | _ => false end.
Definition is_compute (k : rkind) : bool := match k with RCompute _ => true | _ => false end.
Definition is_row_local_compute (k : rkind) : bool := match k with RCompute c => row_local c | _ => false end.
(* what must keep its relative order for the pipeline to mean the same: everything except sorts (which do not
   change the row set or any column) and row-local column definitions *)
Definition order_matters (k : rkind) : bool := negb (is_sort k) && negb (is_row_local_compute k).

Definition all_rkinds : list rkind := [RFrom; RJoin; RSort; RTake; ROther] ++ map RCompute all_cx.
(* decidable form of: whenever the policy lets a Compute of complexity c cross x, one of the two is not kept *)
Definition policy_respects (keep : rkind -> bool) (pol : reorder_policy) : bool :=
  forallb (fun x => forallb (fun c => implb (should_swap pol c x) (negb (keep x) || negb (keep (RCompute c)))) all_cx) all_rkinds.
Definition reorder_policy_eqb (a b : reorder_policy) : bool :=
  forallb (fun c => Bool.eqb (rp_take a c) (rp_take b c)) all_cx && Bool.eqb (rp_sort a) (rp_sort b) && Bool.eqb (rp_other a) (rp_other b).

(* plain data for the correspondence stream *)
Definition rkind_of_code (n : N) : rkind :=
  if N.eqb n 0 then RFrom else if N.eqb n 1 then RJoin else if N.eqb n 2 then RSort else if N.eqb n 3 then RTake
  else if N.eqb n 4 then ROther else if N.eqb n 10 then RCompute CPlain else if N.eqb n 11 then RCompute CNonGroup
  else if N.eqb n 12 then RCompute CWindowed else RCompute CAggregation.
Definition tag_items (codes : list N) : list ritem := combine (map N.of_nat (seq 0 (length codes))) (map rkind_of_code codes).
Definition reorder_tags (pol : reorder_policy) (codes : list N) : list N := map fst (reorder pol (tag_items codes)).

(* PRQL scalar expressions: (1) the instance of the generic Pratt parser with the tables of
   Gen/GenPratt.v (levels from the `.pratt((...))` call, unary and range layers below it), (2) the
   comparison of that table with the documented one (Gen/GenDocPrec.v), (3) the surface AST [pexpr]
   used by the semantic models.  Definitions only. *)
From Coq Require Import List Arith NArith ZArith Bool.
From PV Require Import Lib.ListX Model.Pratt Gen.GenPratt Gen.GenDocPrec.
Import ListNotations.

Definition binop_eqb (a b : binop) : bool := Nat.eqb (binop_idx a) (binop_idx b).
Definition unop_eqb (a b : unop) : bool := Nat.eqb (unop_idx a) (unop_idx b).
Definition mem_binop (o : binop) (l : list binop) : bool := existsb (binop_eqb o) l.

(* ---- the code's table ---- *)
Fixpoint level_in (ls : list (nat * bool * list binop)) (o : binop) : option (nat * bool) :=
  match ls with
  | [] => None
  | (lv, r, mem) :: t => if mem_binop o mem then Some (lv, r) else level_in t o
  end.
Definition level_of := level_in pratt_levels.
Definition max_level : nat := fold_right (fun x m => Nat.max (fst (fst x)) m) 0 pratt_levels.

(* infix operators of the token grammar: the binary operators, and `..` (the range layer sits
   between the unary layer and the Pratt levels) *)
Inductive pop := PBin (o : binop) | PRange.
Definition pops_all : list pop := PRange :: map PBin binops_all.
Definition pprec (o : pop) : nat :=
  match o with
  | PBin b => match level_of b with Some (l, _) => l | None => 0 end
  | PRange => S max_level
  end.
Definition prassoc (o : pop) : bool :=
  match o with PBin b => match level_of b with Some (_, r) => r | None => false end | PRange => false end.
Definition puprec (u : unop) : nat := S (S max_level).
Definition PINF : nat := 4 + max_level.

Definition ptok := Pratt.tok pop unop nat nat.
Definition gexpr := Pratt.expr pop unop nat nat.
Definition gparse := Pratt.parse pop unop nat nat pprec prassoc puprec.

(* what the layering of expr.rs rejects although the generic parser would accept it:
   a unary operator applied to a unary term (unary_nests = false), and `a..b..c` *)
Fixpoint layering_ok (ts : list ptok) (flags : list bool) (prev_unary : bool) : bool :=
  match ts with
  | [] => true
  | t :: r =>
      match t with
      | TU _ => if prev_unary && negb unary_nests then false else layering_ok r flags true
      | TO PRange =>
          match flags with
          | true :: _ => false
          | _ :: fl => layering_ok r (true :: fl) false
          | [] => layering_ok r [true] false
          end
      | TO (PBin _) => layering_ok r (match flags with _ :: fl => false :: fl | [] => [false] end) false
      | TL => layering_ok r (false :: flags) false
      | TR => layering_ok r (match flags with _ :: fl => fl | [] => [] end) false
      | _ => layering_ok r flags false
      end
  end.

Definition prql_parse (ts : list ptok) : option gexpr :=
  if layering_ok ts [false] false then
    match gparse (2 * length ts + 2) 0 ts with
    | Some (e, []) => Some e
    | _ => None
    end
  else None.

(* prefix serialisation for the correspondence stream: 0 n = atom n, 1 i l r = binary (index i,
   100 = range), 2 i x = unary *)
Fixpoint gser (e : gexpr) : list nat :=
  match e with
  | Atom a => [0; a]
  | Bin (PBin o) l r => 1 :: binop_idx o :: gser l ++ gser r
  | Bin PRange l r => 1 :: 100 :: gser l ++ gser r
  | Un u x => 2 :: unop_idx u :: gser x
  | Call f args => 3 :: f :: length args :: flat_map gser args
  end.

(* ---- the documented table ---- *)
Definition row_group (r : list N * list (list N) * nat * doc_assoc) := fst (fst (fst r)).
Definition row_ops (r : list N * list (list N) * nat * doc_assoc) := snd (fst (fst r)).
Definition row_prec (r : list N * list (list N) * nat * doc_assoc) := snd (fst r).
Definition row_assoc (r : list N * list (list N) * nat * doc_assoc) := snd r.
Definition is_binary_row r := match row_assoc r with DLeft | DRight => true | _ => false end.
Definition bin_rows := filter is_binary_row doc_rows.
Definition str_in (s : str) (l : list str) : bool := existsb (leqb s) l.
Definition doc_bin (o : binop) : list (nat * bool) :=
  map (fun r => (row_prec r, match row_assoc r with DRight => true | _ => false end))
      (filter (fun r => str_in (binop_text o) (row_ops r)) bin_rows).
Definition rows_named (n : str) := filter (fun r => leqb (row_group r) n) doc_rows.
Definition s_unary : str := [117;110;97;114;121]%N.
Definition s_range : str := [114;97;110;103;101]%N.
Definition s_pratt : str := [112;114;97;116;116]%N.

(* [known_undocumented]: binary operators of the code that the book's table does not list *)
Definition doc_agrees (known_undocumented : list binop) : bool :=
  (* every operator has a level; documented exactly once (or, if known, not at all) *)
  forallb (fun o => match level_of o with Some _ => true | None => false end &&
                    (if mem_binop o known_undocumented then Nat.eqb (length (doc_bin o)) 0
                     else Nat.eqb (length (doc_bin o)) 1)) binops_all &&
  (* same order (the book counts downwards), same grouping, same associativity *)
  forallb (fun a => forallb (fun b =>
     match doc_bin a, doc_bin b, level_of a, level_of b with
     | [(pa, ra)], [(pb, _)], Some (la, ca), Some (lb, _) =>
         Bool.eqb (lb <? la) (pa <? pb) && Bool.eqb (la =? lb) (pa =? pb) && Bool.eqb ra ca
     | _, _, _, _ => true
     end) binops_all) binops_all &&
  (* no documented binary operator is missing from the code *)
  forallb (fun r => forallb (fun s => existsb (fun o => leqb s (binop_text o)) binops_all) (row_ops r)) bin_rows &&
  (* unary and range rows: present once, bind tighter than every binary row, unary tighter than range,
     and the unary row lists exactly the operators of operator_unary() *)
  match rows_named s_unary, rows_named s_range with
  | [ru], [rr] =>
      (row_prec ru <? row_prec rr) &&
      forallb (fun r => row_prec rr <? row_prec r) bin_rows &&
      forallb (fun u => str_in (unop_text u) (row_ops ru)) unary_ops &&
      forallb (fun s => existsb (fun u => leqb s (unop_text u)) unary_ops) (row_ops ru)
  | _, _ => false
  end &&
  (* the code applies the layers in the documented order *)
  match layer_order with
  | [a; b; c] => leqb a s_unary && leqb b s_range && leqb c s_pratt
  | _ => false
  end.

(* canonical (minimal-parentheses) policy of the DOCUMENTED table: used to print test programs *)
Definition doc_level (o : binop) : nat := match doc_bin o with (p, _) :: _ => p | [] => 0 end.

(* ---- surface AST used by the semantic models ---- *)
Inductive lit := LNull | LInt (z : Z) | LFloat (num : Z) (den_pow2 : N) (* num / 2^k, printed as a decimal *)
               | LBool (b : bool) | LStr (s : str)
               | LTemporal (kind : N) (text : str).   (* @2020-01-01 (kind 0, Date), @08:30 (1, Time), @2020-01-01T08:30:00Z (2,
                    Timestamp): the literal as it is spelled; what instant it denotes is outside the value model *)
Definition is_temporal_lit (l : lit) : bool := match l with LTemporal _ _ => true | _ => false end.

Inductive pexpr :=
| PCol (i : nat)                       (* column a / b / c ... *)
| PLit (l : lit)
| PBinE (o : binop) (l r : pexpr)
| PUnE (u : unop) (e : pexpr)
| PCase (cs : list (pexpr * pexpr))
| PIn (e : pexpr) (lo hi : option pexpr).   (* (e | in lo..hi) *)

(* range-free generic trees are surface expressions (atoms are column numbers) *)
Fixpoint of_gexpr (e : gexpr) : option pexpr :=
  match e with
  | Atom a => Some (PCol a)
  | Bin (PBin o) l r => match of_gexpr l, of_gexpr r with Some l', Some r' => Some (PBinE o l' r') | _, _ => None end
  | Bin PRange _ _ => None
  | Un u x => option_map (PUnE u) (of_gexpr x)
  | Call _ _ => None
  end.

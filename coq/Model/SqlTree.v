(* SQL expression trees as instances of the generic decorated trees of Model/Pratt.v, templates of
   std.sql.prql as trees with holes, substitution, and rendering to text.  Definitions only. *)
From Coq Require Import List NArith Bool Arith.
From PV Require Import Lib.ListX Model.Pratt Model.SqlGrammar Gen.GenSqlStrength.
Import ListNotations.

(* a hole carries what the emitter passes to translate_operand for the argument placed there *)
Inductive satom := AText (s : str) | AHole (i : nat) (req : nat) (is_left : bool) (a : assoc3).
Inductive sfn := FName (s : str) | FCase.   (* CASE: arguments c1 v1 ... cn vn else *)

Definition sdexpr := Pratt.dexpr sop suop satom sfn.
Definition sexpr := Pratt.expr sop suop satom sfn.
Definition stok := Pratt.tok sop suop satom sfn.

(* hole of a template: required strength = the `{x:N}` format, or the template's declared strength *)
Definition th (declared : nat) (i : nat) (req : option nat) : satom :=
  AHole i (match req with Some r => r | None => declared end) template_operand_is_left template_operand_assoc.

Inductive chunk := CText (s : str) | CHole (name : str) (idx : nat) (req : option nat).

Record template := {
  t_module : str;                 (* dialect module name, [] = the default definitions *)
  t_name : str;                   (* e.g. div_i, math.pow *)
  t_params : list str;            (* named_params ++ params *)
  t_declared : option nat;        (* @{binding_strength=N} *)
  t_coalesce : option str;
  t_window : bool;
  t_body : option (list chunk);   (* None = `null` body: not supported for this dialect *)
  t_skel : option (nat -> nat * sdexpr)  (* declared strength -> (top-level parentheses, tree with holes) *)
}.

(* ---- substitution of (parenthesis count, subtree) for holes ---- *)
Section Subst.
Variable sigma : nat -> nat -> bool -> assoc3 -> nat * sdexpr.
Definition sub_edge (rec : sdexpr -> sdexpr) (w : nat) (c : sdexpr) : nat * sdexpr :=
  match c with
  | DAtom (AHole i req il a) => let (k, x) := sigma i req il a in (w + k, x)
  | _ => (w, rec c)
  end.
Fixpoint dsubst (d : sdexpr) : sdexpr :=
  match d with
  | DAtom a => DAtom a
  | DBin o wl l wr r =>
      DBin o (fst (sub_edge dsubst wl l)) (snd (sub_edge dsubst wl l)) (fst (sub_edge dsubst wr r)) (snd (sub_edge dsubst wr r))
  | DUn u w x => DUn u (fst (sub_edge dsubst w x)) (snd (sub_edge dsubst w x))
  | DCall f args => DCall f (map (fun p => sub_edge dsubst (fst p) (snd p)) args)
  end.
End Subst.

(* ---- rendering: byte-for-byte what sqlparser's Display / the template text give ---- *)
Local Open Scope N_scope.
Definition HB : N := 2000000.      (* holes render as two private code points: index, requirement *)
Fixpoint wrapS (n : nat) (s : str) : str := match n with O => s | S k => 40 :: wrapS k s ++ [41] end.
Definition sp : str := [32].
Definition s_case : str := [67;65;83;69].
Definition s_when : str := [32;87;72;69;78;32].
Definition s_then : str := [32;84;72;69;78;32].
Definition s_else : str := [32;69;76;83;69;32].
Definition s_end : str := [32;69;78;68].
Definition s_null : str := [78;85;76;76].

Definition render_atom (a : satom) : str :=
  match a with
  | AText s => s
  | AHole i req _ _ => [HB + N.of_nat i; HB + 1000 + N.of_nat req]
  end.

Fixpoint render (d : sdexpr) : str :=
  match d with
  | DAtom a => render_atom a
  | DBin o wl l wr r => wrapS wl (render l) ++ sp ++ sop_text o ++ sp ++ wrapS wr (render r)
  | DUn u w x => suop_text u ++ wrapS w (render x)
  | DCall (FName s) args =>
      s ++ 40 ::
      (fix go (l : list (nat * sdexpr)) : str :=
         match l with
         | [] => [41]
         | [(w, a)] => wrapS w (render a) ++ [41]
         | (w, a) :: t => wrapS w (render a) ++ 44 :: 32 :: go t
         end) args
  | DCall FCase args =>
      s_case ++
      (fix go (l : list (nat * sdexpr)) : str :=
         match l with
         | [] => s_end
         | [(w, e)] => s_else ++ wrapS w (render e) ++ s_end
         | (w, c) :: (w2, v) :: t => s_when ++ wrapS w (render c) ++ s_then ++ wrapS w2 (render v) ++ go t
         end) args
  end.

Definition render_top (p : nat * sdexpr) : str := wrapS (fst p) (render (snd p)).

Definition chunk_text (declared : nat) (c : chunk) : str :=
  match c with
  | CText s => s
  | CHole _ i req => [HB + N.of_nat i; HB + 1000 + N.of_nat (match req with Some r => r | None => declared end)]
  end.

Definition declared_of (t : template) : nat :=
  match t_declared t with Some n => n | None => template_default_strength end.

(* the skeleton is the template: same text, same holes, same requirements; hole names are parameters *)
Definition template_wf (t : template) : bool :=
  match t_body t, t_skel t with
  | Some cs, Some sk =>
      leqb (render_top (sk (declared_of t))) (flat_map (chunk_text (declared_of t)) cs) &&
      forallb (fun c => match c with
                        | CHole n i _ => match nth_error (t_params t) i with Some p => leqb p n | None => false end
                        | CText _ => true end) cs
  | _, _ => true
  end.

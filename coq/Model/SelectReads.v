(* C18: the compiler as a program that may READ three things -- the target option, the header's target, the chosen
   dialect -- at inventoried sites.  Definitions only.

   Model/Select.v states the selection rule over an abstract back end [gen : dialect -> rq -> res sql], i.e. it ASSUMES the
   back end sees nothing but the chosen dialect.  Here that assumption is replaced by something checkable against the code:
   front end and back end are arbitrary decision trees [rd] whose nodes are reads ([ROpt]: the `dialect: Option<Dialect>`
   parameter / `options.target`; [RHdr]: `QueryDef.other["target"]`; [RChosen]: `ctx.dialect` / `ctx.dialect_enum`), each
   labelled with its index in the inventory Gen/GenDialectReads.v that the translator regenerates from /repo on every run
   (every occurrence in the Rust source of the parameter, of `.other`, of a `QueryDef { .. }` literal, of `.dialect` /
   `.dialect_enum`, of `Context { .. }` / `Context::new`, of `Target::from_str` / `Dialect::from_str`).
   The selection theorems (Props/C18.v) are then stated for every pair of trees whose reads are among the inventoried
   sites, under a decidable condition on the inventory ([reads_table_ok]) that is re-judged by vm_compute on every run. *)
From Coq Require Import List NArith Bool.
From PV Require Import Lib.ListX Model.Select.
Import ListNotations.
Local Open Scope N_scope.

(* ---- the inventory ---- *)
Definition site := (N * (N * (N * (str * str))))%type.   (* kind, stage, class, file, function *)
Definition s_kind (e : site) : N := fst e.
Definition s_stage (e : site) : N := fst (snd e).
Definition s_class (e : site) : N := fst (snd (snd e)).

(* kinds *)
Definition k_opt : N := 0.   Definition k_hdr : N := 1.   Definition k_chosen : N := 2.   Definition k_parse : N := 3.
(* stages *)
Definition st_front : N := 0.   Definition st_back : N := 1.   Definition st_cli : N := 2.

(* A site at which a tree of stage [st] may perform a read of kind [k] whose answer it is free to branch on.
   - chosen-dialect reads: class 0 (ctx.dialect / ctx.dialect_enum) and 3 (compile_query's local after the selection);
   - option / header reads: only the class-9 entries ("some other use") -- the classes 0..5 are the fixed plumbing that
     [select_dialect] already models (binding, passing on unchanged, the selection itself, the signature comment, other
     fields of Options) and offer no answer to branch on. *)
Definition free_class (k c : N) : bool :=
  if k =? k_chosen then (c =? 0) || (c =? 3) else c =? 9.
Definition site_free (T : list site) (st k : N) (i : N) : bool :=
  match nth_error T (N.to_nat i) with
  | Some e => (s_kind e =? k) && (s_stage e =? st) && free_class k (s_class e)
  | None => false
  end.

(* index of the first site at which a read of kind [k] is free in stage [st] (length of the table if there is none) *)
Fixpoint first_free_from (T : list site) (st k : N) (fuel : nat) (i : N) : N :=
  match fuel with
  | O => i
  | S f => if site_free T st k i then i else first_free_from T st k f (i + 1)
  end.
Definition first_free (T : list site) (st k : N) : N := first_free_from T st k (List.length T) 0.

(* the decidable condition on the inventory:
   (1) outside the command line no site is of class OTHER (9) or ASSIGNMENT (8): the option is only bound, passed on, selected on
       and printed in the signature; the header is only declared, stored by the parser, printed by the formatter and selected
       on; the chosen dialect is only read, and Context is only built by Context::new from the chosen dialect;
   (2) the chosen dialect is only read in the back end;  the option is never touched by the front end;
   (3) the header's only back-end read is the selection; target names are only parsed by Target::from_str itself, by the
       selection and by the command line;
   (4) there is exactly one selection (option side, header side, parser side), one Context::new call and one Context literal. *)
Definition count (p : site -> bool) (T : list site) : nat := List.length (filter p T).
Definition is (k c : N) (e : site) : bool := (s_kind e =? k) && (s_class e =? c).
Definition site_ok (e : site) : bool :=
  if s_stage e =? st_cli then true
  else negb (s_class e =? 9) && negb (s_class e =? 8) &&
       (if s_kind e =? k_chosen then s_stage e =? st_back
        else if s_kind e =? k_opt then (s_stage e =? st_back) || (s_class e =? 4) || (s_class e =? 5)
        else if s_kind e =? k_hdr then (if s_stage e =? st_back then s_class e =? 3 else negb (s_class e =? 3))
        else (* parse *) (s_class e =? 0) || ((s_class e =? 1) && (s_stage e =? st_back))).
Definition reads_table_ok (T : list site) : bool :=
  forallb site_ok T &&
  Nat.eqb (count (is k_opt 2) T) 1 && Nat.eqb (count (is k_hdr 3) T) 1 && Nat.eqb (count (is k_parse 1) T) 1 &&
  Nat.eqb (count (is k_chosen 1) T) 1 && Nat.eqb (count (is k_chosen 2) T) 1 &&
  negb (Nat.eqb (count (is k_chosen 0) T) 0).

(* ---- programs that read ---- *)
Inductive rk := ROpt | RHdr | RChosen.
Definition rk_code (k : rk) : N := match k with ROpt => k_opt | RHdr => k_hdr | RChosen => k_chosen end.
Inductive ans := AOpt (o : option dialect) | AHdr (h : option str) | AChosen (d : dialect).
Record env := { e_opt : option dialect; e_hdr : option str; e_chosen : dialect }.
Definition answer (e : env) (k : rk) : ans :=
  match k with ROpt => AOpt (e_opt e) | RHdr => AHdr (e_hdr e) | RChosen => AChosen (e_chosen e) end.

Inductive rd (A : Type) :=
| Ret (a : res A)
| Read (k : rk) (i : N) (cont : ans -> rd A).
Arguments Ret {A} a.
Arguments Read {A} k i cont.

Fixpoint run {A} (e : env) (p : rd A) : res A :=
  match p with
  | Ret a => a
  | Read k _ c => run e (c (answer e k))
  end.

(* every read of the tree happens at an inventoried site of its stage at which a read of that kind is free *)
Inductive reads_within {A} (T : list site) (st : N) : rd A -> Prop :=
| RW_ret a : reads_within T st (Ret a)
| RW_read k i c : site_free T st (rk_code k) i = true -> (forall a, reads_within T st (c a)) -> reads_within T st (Read k i c).

Section Pipeline.
  Variable names : list str.
  Variable default : nat.
  Variable prefix any : str.
  Variable src rq sql : Type.
  Variable fe : src -> rd rq.          (* parse, resolve, lower *)
  Variable bk : rq -> rd sql.          (* the SQL back end after Context::new *)

  (* prqlc::compile: front end, then compile_query's selection, then the back end with ctx.dialect = the chosen one.
     (The front end never sees a chosen dialect: there its field is a dummy.) *)
  Definition compile_rd (opt : option dialect) (hdr : option str) (s : src) : res sql :=
    match run {| e_opt := opt; e_hdr := hdr; e_chosen := default |} (fe s) with
    | Err => Err
    | Ok q =>
        match select_dialect names default prefix any opt hdr with
        | Err => Err
        | Ok d => run {| e_opt := opt; e_hdr := hdr; e_chosen := d |} (bk q)
        end
    end.

  (* what the resolver answers for a program (prql_to_pl + pl_to_rq) *)
  Definition resolve_rd (opt : option dialect) (hdr : option str) (s : src) : res rq :=
    run {| e_opt := opt; e_hdr := hdr; e_chosen := default |} (fe s).

  (* the back end of Model/Select.v that this pipeline induces: a function of the chosen dialect only *)
  Definition gen_of (d : dialect) (s : src) : res sql :=
    match run {| e_opt := None; e_hdr := None; e_chosen := default |} (fe s) with
    | Err => Err
    | Ok q => run {| e_opt := None; e_hdr := None; e_chosen := d |} (bk q)
    end.
End Pipeline.

(* C07 -- the LIMIT / OFFSET / FETCH / ORDER BY tail of translate_select_pipeline (prqlc/src/sql/gen_query.rs), value level.

   Mirror of the code between `let ranges = takes...` and the construction of `sql_ast::Query`:
     take   = range_of_ranges(ranges)?                 -- Model/RangeArith.v (owned by C12, imported)
     offset = take.start - 1 (0 if open), limit = take.end - offset         -- RangeArith.limit_offset
     offset clause : None if 0, else OFFSET n [ROWS iff use_fetch]
     (fetch, limit): use_fetch ? (limit, None) : (None, limit)
     limit_for_bare_offset: (None, Some offset, Some spelling) and no fetch => LIMIT <spelling>
     fetch present: OFFSET 0 ROWS forced when there is no offset; ORDER BY forced when the last Sort is empty:
        the first expression / alias of the projection when the SELECT is DISTINCT (first_expr_from_projection),
        otherwise the placeholder (SELECT NULL)
     ORDER BY otherwise: the keys of the LAST Sort of the pipeline.
   Inputs are exactly what the hook `verif:select_pipeline_in` / `_mid` logs (commit 7400a50): the Take ranges in pipeline
   order, the number of keys of the last Sort, whether a Distinct is present, the item kinds of the projection, and the two
   dialect values the function reads (use_fetch, limit_for_bare_offset) -- which the harness takes from the regenerated
   feature table Gen/GenDialectFeat.v instead, so the table is tied to the running code as well.
   Texts (expressions of the projection, the LIMIT spelling) are interned / code point lists; the keys of a non-empty
   ORDER BY are translate_column_sort's business and are represented by their number.
   Executable definitions only; no proofs here. *)
From Coq Require Import List ZArith NArith Bool.
From PV Require Import Lib.ListX Model.Checked Model.RangeArith Model.SqlAst Model.DialectFeat.
Import ListNotations.
Local Open Scope Z_scope.

(* a SelectItem as first_expr_from_projection distinguishes them; texts interned by the harness *)
Inductive pitem := PUnnamed (e : N) | PAliased (alias : N) | PWild.
Fixpoint first_expr (p : list pitem) : option N :=
  match p with
  | [] => None
  | PUnnamed e :: _ => Some e
  | PAliased a :: _ => Some a
  | PWild :: r => first_expr r
  end.

(* LIMIT n is built by expr_of_i64 (gen_expr.rs).  Until fix 1cedbd3 it set sqlparser's `long` flag from 2^32 on and the
   numeral was printed with a suffix L (finding N17); now Value::Number(n.to_string(), false): [LNum z] is the plain decimal
   numeral of z, [lim_long] -- "the spelling carries a suffix" -- is constantly false. *)
Inductive limval := LNum (z : Z) | LSpell (s : list N).
Definition lim_long (z : Z) : bool := false.
(* ORDER BY of the query: the n keys of the last Sort (0 = no ORDER BY), or one forced key *)
Inductive ordk := OKeys (n : nat) | OFallbackNull | OFallbackExpr (e : N).
Record clauses := mkClauses { k_limit : option limval; k_offset : option (Z * bool) (* value, ROWS *); k_fetch : option Z; k_order : ordk }.

Definition select_clauses (use_fetch : bool) (bare : option (list N)) (nsort : nat) (distinct : bool) (proj : list pitem)
                          (ol : Z * option Z) : clauses :=
  let off := fst ol in
  let lim := snd ol in
  let offset := if off =? 0 then None else Some (off, use_fetch) in
  let fetch := if use_fetch then lim else None in
  let limit := if use_fetch then None else option_map LNum lim in
  let limit := match limit, offset, bare with
               | None, Some _, Some all_rows => match fetch with None => Some (LSpell all_rows) | Some _ => limit end
               | _, _, _ => limit
               end in
  let offset := match fetch with
                | Some _ => match offset with None => Some (0, true) | Some o => Some o end
                | None => offset
                end in
  let order := match fetch, nsort with
               | Some _, O => if distinct then match first_expr proj with Some e => OFallbackExpr e | None => OFallbackNull end
                              else OFallbackNull
               | _, _ => OKeys nsort
               end in
  mkClauses limit offset fetch order.

(* the whole computation for the takes of one atomic pipeline; Fail = Err("take range is too large") / non-literal bound *)
Definition select_limit (use_fetch : bool) (bare : option (list N)) (nsort : nat) (distinct : bool) (proj : list pitem)
                        (takes : list erange) : out clauses :=
  bind (take_sql takes) (fun ol => Ret (select_clauses use_fetch bare nsort distinct proj ol)).

(* ---- abstraction to the presence record of Model/SqlAst.v and the constructs of Model/DialectFeat.v ---- *)
Definition is_some {A} (o : option A) : bool := match o with Some _ => true | None => false end.
Definition ordered_of (k : ordk) : bool := match k with OKeys O => false | _ => true end.
Definition shape (c : clauses) : limit * bool :=
  (mkLimit (is_some (k_limit c)) (is_some (k_offset c)) (match k_offset c with Some (_, r) => r | None => false end) (is_some (k_fetch c)),
   ordered_of (k_order c)).
Definition clause_uses (c : clauses) : list construct := lim_uses (fst (shape c)) (snd (shape c)).
(* the open class N7 on the clause record: OFFSET .. ROWS, no FETCH, no ORDER BY *)
Definition clauses_known (c : clauses) : bool :=
  (match k_offset c with Some (_, r) => r | None => false end) && negb (is_some (k_fetch c)) && negb (ordered_of (k_order c)).

(* ---- what the harness evaluates: the row of the regenerated table is looked up by dialect name ---- *)
Fixpoint find_feat {F} (fs : list (str * F)) (d : str) : option F :=
  match fs with [] => None | (d', f) :: r => if leqb d' d then Some f else find_feat r d end.

Definition limval_code (l : option limval) : N * Z * list N :=
  match l with None => (0%N, 0, []) | Some (LNum z) => ((if lim_long z then 3%N else 1%N), z, []) | Some (LSpell s) => (2%N, 0, s) end.
Definition offset_code (o : option (Z * bool)) : N * Z * bool :=
  match o with None => (0%N, 0, false) | Some (z, r) => (1%N, z, r) end.
Definition fetch_code (f : option Z) : N * Z := match f with None => (0%N, 0) | Some z => (1%N, z) end.
Definition order_code (k : ordk) : N * N * N :=
  match k with OKeys n => (0%N, N.of_nat n, 0%N) | OFallbackNull => (1%N, 0%N, 0%N) | OFallbackExpr e => (2%N, 0%N, e) end.
(* (1, codes) for Ret, (0, _) for Fail, (2, _) for Panic *)
Definition clauses_code (r : out clauses) : N * ((N * Z * list N) * (N * Z * bool) * (N * Z) * (N * N * N)) :=
  match r with
  | Ret c => (1%N, (limval_code (k_limit c), offset_code (k_offset c), fetch_code (k_fetch c), order_code (k_order c)))
  | Fail => (0%N, (limval_code None, offset_code None, fetch_code None, order_code (OKeys O)))
  | Panic => (2%N, (limval_code None, offset_code None, fetch_code None, order_code (OKeys O)))
  end.

(* C08 -- embedded data: std.from_text format:json.  A JSON document is parsed by serde_json (dependency) into values;
   prqlc's  semantic/resolver/transforms.rs  from_text::map_json_primitive  turns every cell into a Literal, which then
   takes the relation-literal path through translate_literal (Model/Literal.v emit_rlit).
   serde_json's number classes (de.rs / number.rs, arbitrary_precision off): an integer token that fits u64 is PosInt, a
   negative one that fits i64 is NegInt, every other number (fraction, exponent, or an integer outside those ranges) is
   an f64.  is_i64 holds for NegInt and for PosInt <= i64::MAX; is_f64 only for the f64 class.
   (format:csv makes every cell a Literal::String: there is nothing to model beyond the string path.)
   Executable definitions only; proofs in Proofs/FromTextProofs.v. *)
From Coq Require Import List NArith ZArith Bool.
From PV Require Import Lib.ListX Model.Literal.
Import ListNotations.

Inductive jval :=
| JNull | JBool (b : bool)
| JInt (z : Z)          (* a number written as an integer (no fraction, no exponent) *)
| JReal                 (* a number with a fraction or an exponent: an f64 (value handling: Model/FloatRyu.v) *)
| JString (s : str)
| JArray | JObject.

Definition I64_MIN_Z : Z := (-9223372036854775808)%Z.
Definition I64_MAX_Z : Z := 9223372036854775807%Z.
Definition U64_MAX_Z : Z := 18446744073709551615%Z.

(* map_json_primitive; None = Err (since fix d86674e: "json: the number .. does not fit a 64-bit signed integer" /
   "json: a cell must be a string, a number, a boolean or null"; before, these cells became NULL: finding C08-N2) *)
Definition map_json_primitive (v : jval) : option rlit :=
  match v with
  | JNull => Some RNull
  | JBool b => Some (RBool b)
  | JInt z =>
      if ((I64_MIN_Z <=? z) && (z <=? I64_MAX_Z))%Z then Some (RInt z)      (* Number(n) if n.is_i64() *)
      else if ((I64_MAX_Z <? z) && (z <=? U64_MAX_Z))%Z then None           (* PosInt above i64::MAX: neither is_i64 nor is_f64 *)
      else Some RFloat                                                      (* beyond u64 / below i64: serde_json made it an f64 *)
  | JReal => Some RFloat
  | JString s => Some (RString s)
  | JArray | JObject => None
  end.

(* the literal that stands for the cell's value (JReal, and integers serde_json reads as f64: the float path) *)
Definition json_literal_of (v : jval) : option rlit :=
  match v with
  | JNull => Some RNull | JBool b => Some (RBool b)
  | JInt z => if ((I64_MIN_Z <=? z) && (z <=? I64_MAX_Z))%Z then Some (RInt z) else Some RFloat
  | JReal => Some RFloat | JString s => Some (RString s)
  | JArray | JObject => None
  end.

Definition rlit_view (l : rlit) : N * str * (N * N) :=
  match l with
  | RNull => (0, [], (0, 0)) | RInt z => (1, [], zview z) | RFloat => (2, [], (0, 0)) | RBool b => (3, [], (0, if b then 1 else 0))
  | RString s => (4, s, (0, 0)) | RDate s => (7, s, (0, 0)) | RTime s => (8, s, (0, 0)) | RTimestamp s => (9, s, (0, 0))
  | RValueAndUnit => (10, [], (0, 0))
  end%N.
Definition json_cell_view (v : jval) : option (N * str * (N * N)) := option_map rlit_view (map_json_primitive v).

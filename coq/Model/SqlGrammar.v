(* The target engine's expression grammar (SQLite): operator set, precedence, associativity and
   spelling.  TRUSTED: written from https://www.sqlite.org/lang_expr.html (operators, highest to
   lowest:  ~ + - (unary) | COLLATE | || | * / % | + - | & | << >> | ESCAPE | < > <= >= |
   = == <> != IS [NOT] BETWEEN IN MATCH LIKE REGEXP GLOB | NOT | AND | OR) and validated by the
   end-to-end stream (every emitted expression is executed on SQLite).  Levels are spaced by 2 so
   that the AND of `x BETWEEN lo AND hi` (operator SBand) fits between the equality level and the
   comparison level: BETWEEN is a left operand at the equality level, `lo AND hi` its right operand. *)
From Coq Require Import List NArith Bool.
From PV Require Import Lib.ListX.
Import ListNotations.

Inductive sop := SOr | SAnd | SEq | SNe | SIs | SIsNot | SBetween | SBand | SLike | SRegexp | STilde
               | SLt | SLe | SGt | SGe | SAdd | SSub | SMul | SDiv | SMod | SDivKw | SConcat.
Inductive suop := SNot | SNeg | SPos.
Definition sops_all : list sop :=
  [SOr; SAnd; SEq; SNe; SIs; SIsNot; SBetween; SBand; SLike; SRegexp; STilde; SLt; SLe; SGt; SGe;
   SAdd; SSub; SMul; SDiv; SMod; SDivKw; SConcat].
Definition suops_all : list suop := [SNot; SNeg; SPos].

Definition eprec (o : sop) : nat :=
  match o with
  | SOr => 2 | SAnd => 4
  | SEq | SNe | SIs | SIsNot | SBetween | SLike | SRegexp => 8
  | SBand => 9
  | SLt | SLe | SGt | SGe => 10
  | STilde => 12
  | SAdd | SSub => 14
  | SMul | SDiv | SMod | SDivKw => 16
  | SConcat => 18
  end.
Definition erassoc (o : sop) : bool := match o with SBand => true | _ => false end.
Definition euprec (u : suop) : nat := match u with SNot => 6 | SNeg | SPos => 22 end.
Definition EINF : nat := 30.

Definition sop_idx (o : sop) : nat :=
  match o with SOr => 0 | SAnd => 1 | SEq => 2 | SNe => 3 | SIs => 4 | SIsNot => 5 | SBetween => 6 | SBand => 7
  | SLike => 8 | SRegexp => 9 | STilde => 10 | SLt => 11 | SLe => 12 | SGt => 13 | SGe => 14 | SAdd => 15
  | SSub => 16 | SMul => 17 | SDiv => 18 | SMod => 19 | SDivKw => 20 | SConcat => 21 end.
Definition sop_eqb (a b : sop) : bool := Nat.eqb (sop_idx a) (sop_idx b).

Local Open Scope N_scope.
(* spelling (= sqlparser's Display of the operator); binary operators are printed " op " *)
Definition sop_text (o : sop) : str :=
  match o with
  | SOr => [79;82] | SAnd => [65;78;68] | SEq => [61] | SNe => [60;62]
  | SIs => [73;83] | SIsNot => [73;83;32;78;79;84] | SBetween => [66;69;84;87;69;69;78] | SBand => [65;78;68]
  | SLike => [76;73;75;69] | SRegexp => [82;69;71;69;88;80] | STilde => [126]
  | SLt => [60] | SLe => [60;61] | SGt => [62] | SGe => [62;61]
  | SAdd => [43] | SSub => [45] | SMul => [42] | SDiv => [47] | SMod => [37] | SDivKw => [68;73;86]
  | SConcat => [124;124]
  end.
(* prefix operators are printed with exactly this text (NOT carries its space) *)
Definition suop_text (u : suop) : str :=
  match u with SNot => [78;79;84;32] | SNeg => [45] | SPos => [43] end.

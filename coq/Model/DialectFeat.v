(* C07 -- which SQL constructs a query uses, and which of them a target engine accepts.

   [uses_query q] lists the dialect-sensitive constructs of a query (structural ones, read off the model AST);
   lexical ones (identifier quote characters, INTERVAL literals) are supplied by the converter as [extra].
   [supported d c] is the SPECIFICATION side: facts about the engines, hand-written and deliberately sparse --
   only facts that are executed here (SQLite), stated in the compiler's own support matrix (dialect.rs), or
   elementary vendor grammar (T-SQL has no LIMIT and no RECURSIVE keyword, OFFSET needs ORDER BY there; MySQL
   and SQLite have no OFFSET without LIMIT; MySQL/BigQuery quote with backticks).  Everything else is "supported".
   The compiler's own feature flags are Gen/GenDialectFeat.v; Props/C07.v states, as table obligations, that
   every flag agrees with this table.
   Executable definitions only; no proofs here. *)
From Coq Require Import List NArith Bool.
From PV Require Import Lib.ListX Model.SqlAst.
Import ListNotations.
Local Open Scope N_scope.

Inductive construct :=
| KLimit | KOffsetNoLimit | KOffsetNoOrder | KFetch
| KDistinctOn | KSetOp (op : setop) (q : quant)
| KWildExclude | KWildExcept | KRecursive | KParenOperand | KZeroCols | KGroupStar | KConcatN
| KQuote (ch : N) | KInterval.

Definition f_concat : name := 1.   (* the converter interns the function name CONCAT as 1 *)

Definition lim_uses (lim : limit) (ordered : bool) : list construct :=
  (if l_limit lim then [KLimit] else [])
  ++ (if l_fetch lim then [KFetch] else [])
  ++ (if l_offset lim && negb (l_limit lim) && negb (l_fetch lim) then [KOffsetNoLimit] else [])
  ++ (if (l_offset_rows lim || l_fetch lim) && negb ordered then [KOffsetNoOrder] else []).

Fixpoint exprs_len (x : exprs) : nat := match x with ENil => O | ECons _ r => S (exprs_len r) end.
Fixpoint has_qstar (x : exprs) : bool :=
  match x with ENil => false | ECons e r => match e with EStar (Some _) => true | _ => has_qstar r end end.
Definition is_enil (x : exprs) : bool := match x with ENil => true | _ => false end.

Fixpoint u_expr (e : expr) {struct e} : list construct :=
  match e with
  | ECol _ _ => [] | ELit => [] | EStar _ => []
  | EApp f a => (if N.eqb f f_concat && Nat.ltb 2 (exprs_len a) then [KConcatN] else []) ++ u_exprs a
  | EWin _ a p o _ => u_exprs a ++ u_exprs p ++ u_exprs o
  | ESub q => u_query q
  end
with u_exprs (x : exprs) {struct x} : list construct :=
  match x with ENil => [] | ECons e r => u_expr e ++ u_exprs r end
with u_query (q : query) {struct q} : list construct :=
  match q with
  | Query rc cs body ord lim =>
      (if rc then [KRecursive] else []) ++ u_ctes cs ++ u_setexpr body ++ u_exprs ord ++ lim_uses lim (negb (is_enil ord))
  end
with u_ctes (cs : ctes) {struct cs} : list construct :=
  match cs with CNil => [] | CCons _ q r => u_query q ++ u_ctes r end
with u_setexpr (s : setexpr) {struct s} : list construct :=
  match s with
  | SSelect d don proj from w g h =>
      (match d with DOn => [KDistinctOn] | _ => [] end)
      ++ (match proj with INil => [KZeroCols] | _ => [] end)
      ++ u_items proj ++ u_from from ++ u_exprs don ++ u_exprs w
      ++ (if has_qstar g then [KGroupStar] else []) ++ u_exprs g ++ u_exprs h
  | SSetOp op qt l r => KSetOp op qt :: u_setexpr l ++ u_setexpr r
  | SQuery q => KParenOperand :: u_query q
  end
with u_items (i : items) {struct i} : list construct :=
  match i with
  | INil => []
  | IExpr e _ r => u_expr e ++ u_items r
  | IWild _ ek _ r => (if N.eqb ek 1 then [KWildExclude] else if N.eqb ek 2 then [KWildExcept] else []) ++ u_items r
  end
with u_from (f : trefs) {struct f} : list construct :=
  match f with
  | TNil => []
  | TTable _ _ _ on r => u_exprs on ++ u_from r
  | TDerived _ q _ on r => u_query q ++ u_exprs on ++ u_from r
  end.

Definition uses_query := u_query.

(* ------------------------------------------------------------------ engine facts *)
Definition d_ansi : str := [97;110;115;105].
Definition d_bigquery : str := [98;105;103;113;117;101;114;121].
Definition d_clickhouse : str := [99;108;105;99;107;104;111;117;115;101].
Definition d_duckdb : str := [100;117;99;107;100;98].
Definition d_generic : str := [103;101;110;101;114;105;99].
Definition d_glaredb : str := [103;108;97;114;101;100;98].
Definition d_mssql : str := [109;115;115;113;108].
Definition d_mysql : str := [109;121;115;113;108].
Definition d_postgres : str := [112;111;115;116;103;114;101;115].
Definition d_redshift : str := [114;101;100;115;104;105;102;116].
Definition d_sqlite : str := [115;113;108;105;116;101].
Definition d_snowflake : str := [115;110;111;119;102;108;97;107;101].
Definition all_dialects : list str :=
  [d_ansi; d_bigquery; d_clickhouse; d_duckdb; d_generic; d_glaredb; d_mssql; d_mysql; d_postgres; d_redshift; d_sqlite; d_snowflake].

Definition is_ (d : str) (l : list str) : bool := existsb (leqb d) l.

Definition supported (d : str) (c : construct) : bool :=
  match c with
  | KLimit => negb (is_ d [d_mssql])                                   (* T-SQL: TOP / OFFSET..FETCH only *)
  | KFetch => negb (is_ d [d_sqlite; d_mysql; d_bigquery])
  | KOffsetNoLimit => negb (is_ d [d_sqlite; d_mysql])                 (* sqlite: executed; mysql: manual, "LIMIT row_count OFFSET offset" *)
  | KOffsetNoOrder => negb (is_ d [d_mssql])                           (* T-SQL: OFFSET/FETCH are clauses of ORDER BY *)
  | KDistinctOn => is_ d [d_postgres; d_duckdb; d_clickhouse; d_glaredb]
  | KSetOp _ QDistinct => negb (is_ d [d_sqlite; d_mssql])             (* dialect.rs matrix; T-SQL: UNION [ALL] *)
  | KSetOp _ QNone => negb (is_ d [d_bigquery])                        (* dialect.rs matrix *)
  | KSetOp Union QAll => true
  | KSetOp _ QAll => negb (is_ d [d_sqlite; d_mssql; d_bigquery; d_duckdb])  (* dialect.rs matrix + the link it cites for T-SQL *)
  | KWildExclude => is_ d [d_duckdb; d_snowflake]
  | KWildExcept => is_ d [d_bigquery]
  | KRecursive => negb (is_ d [d_mssql])                               (* T-SQL: WITH, recursion implicit, no RECURSIVE keyword *)
  | KParenOperand => negb (is_ d [d_sqlite])                           (* gen_query.rs comment; executed *)
  | KZeroCols => is_ d [d_postgres]                                    (* PostgreSQL >= 9.4 only; sqlparser's Redshift grammar rejects it *)
  | KGroupStar => negb (is_ d [d_sqlite])
  | KConcatN => negb (is_ d [d_sqlite; d_redshift])                    (* dialect.rs comments *)
  | KQuote ch => if N.eqb ch 96 then is_ d [d_mysql; d_bigquery; d_clickhouse]
                 else if N.eqb ch 34 then negb (is_ d [d_mysql; d_bigquery])
                 else if N.eqb ch 91 then is_ d [d_mssql] else false
  | KInterval => negb (is_ d [d_sqlite; d_mssql])
  end.

(* engines whose '...' string literals read a backslash as an escape character (vendor lexical grammar: MySQL without
   NO_BACKSLASH_ESCAPES, BigQuery, ClickHouse, Snowflake, Redshift; the same five sqlparser marks with
   supports_string_literal_backslash_escape).  There a literal emitted with a single backslash in front of its closing
   quote swallows the quote: the text is no longer the statement that was generated. *)
Definition reads_backslash_escape (d : str) : bool := is_ d [d_bigquery; d_clickhouse; d_mysql; d_redshift; d_snowflake].

Definition unsupported_uses (d : str) (q : query) (extra : list construct) : list construct :=
  filter (fun c => negb (supported d c)) (uses_query q ++ extra).
Definition dialect_ok (d : str) (q : query) (extra : list construct) : bool :=
  match unsupported_uses d q extra with [] => true | _ => false end.

Definition setop_code (o : setop) : N := match o with Union => 0 | Except => 1 | Intersect => 2 end.
Definition quant_code (q : quant) : N := match q with QAll => 0 | QDistinct => 1 | QNone => 2 end.
Definition construct_code (c : construct) : N * N * N :=
  match c with
  | KLimit => (1, 0, 0) | KOffsetNoLimit => (2, 0, 0) | KOffsetNoOrder => (3, 0, 0) | KFetch => (4, 0, 0)
  | KDistinctOn => (5, 0, 0) | KSetOp o q => (6, setop_code o, quant_code q)
  | KWildExclude => (7, 0, 0) | KWildExcept => (8, 0, 0) | KRecursive => (9, 0, 0) | KParenOperand => (10, 0, 0)
  | KZeroCols => (11, 0, 0) | KGroupStar => (12, 0, 0) | KConcatN => (13, 0, 0) | KQuote ch => (14, ch, 0) | KInterval => (15, 0, 0)
  end.
(* what the harness reads: (all constructs used, the unsupported ones) *)
Definition dialect_report (d : str) (q : query) (extra : list construct) : list (N * N * N) * list (N * N * N) :=
  (map construct_code (uses_query q ++ extra), map construct_code (unsupported_uses d q extra)).

(* ------------------------------------------------------------------ model of translate_select_pipeline's LIMIT/OFFSET/FETCH
   (gen_query.rs: offset = start-1, limit = end-offset; use_fetch: FETCH replaces LIMIT, then OFFSET 0 ROWS and an
   ORDER BY are forced; a dialect with limit_for_bare_offset gets a LIMIT next to an OFFSET that has none)
   -- returns the clause record and whether the query has an ORDER BY afterwards *)
Definition limit_model_b (use_fetch bare ordered has_off has_lim : bool) : limit * bool :=
  let fix_lim := bare && has_off && negb has_lim in
  if use_fetch
  then (mkLimit fix_lim (has_off || has_lim) (has_off || has_lim) has_lim, ordered || has_lim)
  else (mkLimit (has_lim || fix_lim) has_off false false, ordered).
Definition has_off (s : option N) : bool := match s with Some x => negb (N.eqb (x - 1) 0) | None => false end.
Definition has_lim (e : option N) : bool := match e with Some _ => true | None => false end.
Definition limit_model (use_fetch bare ordered : bool) (s e : option N) : limit * bool :=
  limit_model_b use_fetch bare ordered (has_off s) (has_lim e).
Definition take_uses_b (use_fetch bare ordered ho hl : bool) : list construct :=
  let r := limit_model_b use_fetch bare ordered ho hl in lim_uses (fst r) (snd r).
Definition take_uses (use_fetch bare ordered : bool) (s e : option N) : list construct :=
  take_uses_b use_fetch bare ordered (has_off s) (has_lim e).

(* known class (open): OFFSET .. ROWS without ORDER BY under use_fetch (T-SQL) *)
Definition take_known_b (use_fetch ordered ho hl : bool) : bool := use_fetch && negb ordered && ho && negb hl.
Definition bools : list bool := [true; false].
Definition take_table {F} (uf bare : F -> bool) (fs : list (str * F)) (allow_known : bool) : bool :=
  forallb (fun df =>
    forallb (fun o => forallb (fun ho => forallb (fun hl =>
      forallb (supported (fst df)) (take_uses_b (uf (snd df)) (bare (snd df)) o ho hl)
      || (allow_known && take_known_b (uf (snd df)) o ho hl)) bools) bools) bools) fs.

(* ------------------------------------------------------------------ operators of std.sql.prql
   find_operator_impl: the dialect module first, then the root module; a `null` body, or no implementation at all, is
   "unsupported" (compile error) unless gen_expr.rs emits the operator natively (operator_from_name) *)
Inductive outcome := Emitted | CompileError.
Definition op_entry : Type := (list N * list N * bool * list (option (list N))).
Fixpoint find_op (ops : list op_entry) (m op : str) : option bool :=
  match ops with
  | [] => None
  | (m', op', isnull, _) :: r => if leqb m' m && leqb op' op then Some isnull else find_op r m op
  end.
Definition resolve_op (ops : list op_entry) (d op : str) : option bool :=
  match find_op ops d op with Some b => Some b | None => find_op ops [] op end.
Definition op_outcome (ops : list op_entry) (natives : list str) (d op : str) : outcome :=
  if existsb (leqb op) natives then Emitted
  else match resolve_op ops d op with Some false => Emitted | Some true => CompileError | None => CompileError end.
Definition outcome_code (o : outcome) : N := match o with Emitted => 0 | CompileError => 1 end.

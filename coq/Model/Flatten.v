(* C03/C04: model of the resolver's Flattener (semantic/resolver/flatten.rs) at the level of transform
   kinds: which sort every take / windowed compute is handed (TransformCall.sort -> RQ Take.sort,
   Compute.window.sort), by how many columns it is partitioned, which Sort transforms survive (a sort in
   front of a partitioned group is "undone": recorded but not emitted), how group bodies, window bodies
   and relational arguments (join / append / loop) scope the carried sort and the partition, and where
   an aggregate ends the sort.  Sort keys are opaque tokens; a partition is represented by the NUMBER of
   its key columns.  Definitions only.

   Mirrors flatten.rs as of fixes 8f24a64 (relational arguments), 592b6f8 (leaving a nested group
   restores the enclosing partition), 8d54bf7 + f809321 (an aggregate ends the sort, outside of groups
   and inside a group body alike). *)
From Coq Require Import List Bool Arith.
Import ListNotations.

Section Flatten.
  Variable key : Type.
  Variable empty : key.

  Inductive pitem :=
  | PSort (k : key)
  | PTake                          (* take *)
  | PWin                           (* a windowed compute (derive/select of a window function) *)
  | POther                         (* filter, derive, select ...: no effect on the carried sort *)
  | PAgg                           (* aggregate *)
  | PGroup (nkeys : nat) (body : list pitem)     (* group {by} (body); nkeys = number of columns of `by` (0: the empty tuple) *)
  | PWindow (body : list pitem)    (* window rows:.. (body) *)
  | PSub (body : list pitem).      (* join / append / loop with a relational argument `body` *)

  Inductive out :=
  | OSort (k : key)
  | OTake (partition : nat) (sort : key)       (* partition = number of columns of Take.partition *)
  | OWin (partition : nat) (sort : key).

  Definition is_ne_group (i : pitem) : bool := match i with PGroup (S _) _ => true | _ => false end.

  (* Flattener.partition : Option<Box<Expr>>.  None = outside of any group; Some n = inside `group by (..)`, the
     partition in force has n columns *)
  Definition pcount (part : option nat) : nat := match part with Some n => n | None => 0 end.
  Definition in_group (part : option nat) : bool := match part with Some _ => true | None => false end.

  (* fuel bounds the nesting depth + length; out of fuel = ([], s) and is excluded by the statements *)
  Fixpoint flat (fuel : nat) (und : bool) (part : option nat) (s : key) (p : list pitem) : list out * key :=
    match fuel with
    | O => ([], s)
    | S f =>
      match p with
      | [] => ([], s)
      | it :: rest =>
          (* while this item is folded it may be part of the input of a later partitioned group *)
          let und_i := und || existsb is_ne_group rest in
          match it with
          | PSort k =>
              let '(o, s') := flat f und part k rest in
              ((if und_i then [] else [OSort k]) ++ o, s')
          | PTake => let '(o, s') := flat f und part s rest in (OTake (pcount part) s :: o, s')
          | PWin => let '(o, s') := flat f und part s rest in (OWin (pcount part) s :: o, s')
          | POther => flat f und part s rest
          | PAgg =>
              (* `ends_sort = Aggregate`: the sort is cleared after the aggregate's own TransformCall was built
                 (8d54bf7; f809321 dropped the `partition.is_none()` condition) *)
              flat f und part empty rest
          | PGroup n body =>
              let und_b := match n with S _ => true | O => und_i end in
              (* `self.partition.replace(by)`: inside the body the partition is the group's OWN key, whatever group
                 encloses it *)
              let '(ob, _) := flat f und_b (Some n) empty body in
              (* group resets the order; the enclosing partition applies again (fix 592b6f8) *)
              let '(o, s') := flat f und part empty rest in
              (ob ++ o, s')
          | PWindow body =>
              let '(ob, sb) := flat f und_i part s body in
              let '(o, s') := flat f und part sb rest in
              (ob ++ o, s')
          | PSub body =>
              (* the argument is a pipeline of its own (another table): nothing of it appears here, and the
                 carried sort, the partition and the frame are restored afterwards (fix 8f24a64) *)
              flat f und part s rest
          end
      end
    end.

  (* ---- specification: the order in effect and the partition at every take / windowed compute, in pipeline order.
     sort introduces an order; aggregate ends it; a group body starts without one and the group resets it
     afterwards; a window body inherits and passes it on; relational arguments do not touch it.  A group nested
     in the body of a group splits every chunk of the outer group: its partition is the outer keys AND its own. *)
  Fixpoint carried_spec (fuel : nat) (part : option nat) (s : key) (p : list pitem) : list (nat * key) * key :=
    match fuel with
    | O => ([], s)
    | S f =>
      match p with
      | [] => ([], s)
      | PSort k :: rest => carried_spec f part k rest
      | PTake :: rest | PWin :: rest => let '(o, s') := carried_spec f part s rest in ((pcount part, s) :: o, s')
      | POther :: rest | PSub _ :: rest => carried_spec f part s rest
      | PAgg :: rest => carried_spec f part empty rest
      | PGroup n body :: rest =>
          let '(ob, _) := carried_spec f (Some (pcount part + n)) empty body in
          let '(o, s') := carried_spec f part empty rest in (ob ++ o, s')
      | PWindow body :: rest =>
          let '(ob, sb) := carried_spec f part s body in
          let '(o, s') := carried_spec f part sb rest in (ob ++ o, s')
      end
    end.

  Definition carried_of (o : list out) : list (nat * key) :=
    flat_map (fun x => match x with OTake p k | OWin p k => [(p, k)] | OSort _ => [] end) o.

  (* ---- the known class.
     F45: a group nested in the body of a group with a non-empty key is partitioned by its own key only.
     `tame_nest part p`: no group of p sits inside a non-empty partition *)
  Fixpoint tame_nest (fuel : nat) (part : option nat) (p : list pitem) : bool :=
    match fuel with
    | O => false
    | S f =>
      match p with
      | [] => true
      | PGroup n body :: rest => Nat.eqb (pcount part) 0 && tame_nest f (Some n) body && tame_nest f part rest
      | PWindow body :: rest => tame_nest f part body && tame_nest f part rest
      | _ :: rest => tame_nest f part rest
      end
    end.

  Definition tame (fuel : nat) (part : option nat) (p : list pitem) : bool := tame_nest fuel part p.
End Flatten.

Arguments PSort {key}. Arguments PTake {key}. Arguments PWin {key}. Arguments POther {key}. Arguments PAgg {key}.
Arguments PGroup {key}. Arguments PWindow {key}. Arguments PSub {key}.
Arguments OSort {key}. Arguments OTake {key}. Arguments OWin {key}.

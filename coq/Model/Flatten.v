(* C03/C04: model of the resolver's Flattener (semantic/resolver/flatten.rs) at the level of transform
   kinds: which sort every take / windowed compute is handed (TransformCall.sort -> RQ Take.sort,
   Compute.window.sort), which Sort transforms survive (a sort in front of a partitioned group is
   "undone": recorded but not emitted), how group bodies, window bodies and relational arguments
   (join / append / loop) scope the carried sort.  Sort keys are opaque tokens.  Definitions only. *)
From Coq Require Import List Bool.
Import ListNotations.

Section Flatten.
  Variable key : Type.
  Variable empty : key.

  Inductive pitem :=
  | PSort (k : key)
  | PTake                          (* take *)
  | PWin                           (* a windowed compute (derive/select of a window function) *)
  | POther                         (* filter, derive, select, aggregate ...: no effect on the carried sort *)
  | PGroup (nonempty : bool) (body : list pitem)     (* group {by} (body); nonempty = `by` is not the empty tuple *)
  | PWindow (body : list pitem)    (* window rows:.. (body) *)
  | PSub (body : list pitem).      (* join / append / loop with a relational argument `body` *)

  Inductive out :=
  | OSort (k : key)
  | OTake (partitioned : bool) (sort : key)
  | OWin (partitioned : bool) (sort : key).

  Definition is_ne_group (i : pitem) : bool := match i with PGroup true _ => true | _ => false end.

  (* fuel bounds the nesting depth + length; out of fuel = ([], s) and is excluded by the statements *)
  Fixpoint flat (fuel : nat) (und part : bool) (s : key) (p : list pitem) : list out * key :=
    match fuel with
    | O => ([], s)
    | S f =>
      match p with
      | [] => ([], s)
      | it :: rest =>
          (* while this item is folded it may be part of the input of a later partitioned group *)
          let und_i := und || existsb is_ne_group rest in
          match it with
          | PSort k =>
              let '(o, s') := flat f und part k rest in
              ((if und_i then [] else [OSort k]) ++ o, s')
          | PTake => let '(o, s') := flat f und part s rest in (OTake part s :: o, s')
          | PWin => let '(o, s') := flat f und part s rest in (OWin part s :: o, s')
          | POther => flat f und part s rest
          | PGroup ne body =>
              let und_b := if ne then true else und_i in
              let '(ob, _) := flat f und_b ne empty body in
              let '(o, s') := flat f und part empty rest in       (* group resets the order *)
              (ob ++ o, s')
          | PWindow body =>
              let '(ob, sb) := flat f und_i part s body in
              let '(o, s') := flat f und part sb rest in
              (ob ++ o, s')
          | PSub body =>
              (* the argument is a pipeline of its own (another table): nothing of it appears here, and the
                 carried sort is restored afterwards (fix 8f24a64) *)
              flat f und part s rest
          end
      end
    end.

  (* ---- specification: the order in effect at every take / windowed compute, in pipeline order.
     sort introduces it; a group body starts without one and the group resets it afterwards; a window
     body inherits and passes it on; relational arguments do not touch it. *)
  Fixpoint carried_spec (fuel : nat) (part : bool) (s : key) (p : list pitem) : list (bool * key) * key :=
    match fuel with
    | O => ([], s)
    | S f =>
      match p with
      | [] => ([], s)
      | PSort k :: rest => carried_spec f part k rest
      | PTake :: rest | PWin :: rest => let '(o, s') := carried_spec f part s rest in ((part, s) :: o, s')
      | POther :: rest | PSub _ :: rest => carried_spec f part s rest
      | PGroup ne body :: rest =>
          let '(ob, _) := carried_spec f ne empty body in
          let '(o, s') := carried_spec f part empty rest in (ob ++ o, s')
      | PWindow body :: rest =>
          let '(ob, sb) := carried_spec f part s body in
          let '(o, s') := carried_spec f part sb rest in (ob ++ o, s')
      end
    end.

  Definition carried_of (o : list out) : list (bool * key) :=
    flat_map (fun x => match x with OTake p k | OWin p k => [(p, k)] | OSort _ => [] end) o.
End Flatten.

Arguments PSort {key}. Arguments PTake {key}. Arguments PWin {key}. Arguments POther {key}.
Arguments PGroup {key}. Arguments PWindow {key}. Arguments PSub {key}.
Arguments OSort {key}. Arguments OTake {key}. Arguments OWin {key}.

#!/bin/sh
# Build the framework from files on disk only (offline): harness against /repo's working tree, all Coq files.
set -e
cd "$(dirname "$0")"
export CARGO_NET_OFFLINE=true
python3 - <<'PY'
import sys, os
sys.path.insert(0, os.getcwd())
from vplib import common
common.harness_build()
from vplib.translate import all_gen
all_gen.generate_all()
common.coq_makefile()
rc, out, err = common.coq_make([], timeout=3000)
print(out[-1500:]); print(err[-3000:])
# a broken obligation is reported by the property's own check, not by setup
PY
exit 0

#!/usr/bin/env python3
"""print a markdown table of all known findings (known_findings.json + known_findings.d/*.json)"""
import json, os, glob
R = os.path.dirname(os.path.dirname(os.path.abspath(__file__)))
rows = []
for p in [os.path.join(R, "known_findings.json")] + sorted(glob.glob(os.path.join(R, "known_findings.d", "*.json"))):
    for f in json.load(open(p)).get("findings", []):
        props = f.get("properties") or [f.get("property")]
        rp = f.get("replay", {})
        inp = rp.get("prql") or rp.get("src") or rp.get("input") or ""
        if not isinstance(inp, str):
            inp = json.dumps(inp)
        rows.append((f["id"], ",".join(props), f.get("status", "open") + ((" " + f.get("commit", "")) if f.get("commit") else ""),
                     f["what"].replace("|", "\\|").replace("\n", " ")[:300], inp.replace("|", "\\|").replace("\n", " ⏎ ")[:140]))
print("| id | properties | status | what fails | replay input |\n|---|---|---|---|---|")
for r in sorted(rows):
    print("| %s | %s | %s | %s | `%s` |" % r)
print("\n%d findings" % len(rows))

#!/usr/bin/env python3
"""Assemble MANIFEST.json from manifest.d/Cxx.json fragments (one per claimed property);
every property without a fragment is listed under not_applicable with the reason in manifest.d/_na.json."""
import json, os
R = os.path.dirname(os.path.dirname(os.path.abspath(__file__)))
props = [json.loads(l) for l in open(os.path.join(R, "properties.jsonl"))]
na = json.load(open(os.path.join(R, "manifest.d", "_na.json")))
base = json.load(open(os.path.join(R, "manifest.d", "_base.json")))
checks, nal = [], []
for p in props:
    pid = p["id"]
    f = os.path.join(R, "manifest.d", pid + ".json")
    if os.path.exists(f):
        e = json.load(open(f))
        checks.append({
            "property_id": pid,
            "quick_cmd": "./check %s --tier quick" % pid,
            "thorough_cmd": "./check %s --tier thorough" % pid,
            "evidence_file": "/verif/evidence/%s.json" % pid,
            "replay_cmd_template": "./check %s --replay {path}" % pid,
            "engine": "rocq",
            "level_claimed": {"category": e["category"], "text": e["text"], "design_ref": e.get("design_ref", "DESIGN.md section 5 (%s)" % pid)},
            "level_note": e["note"],
            "technique": e["technique"],
        })
    else:
        nal.append({"property_id": pid, "reason": na.get(pid, na["_default"])})
claimed = [c["property_id"] for c in checks]
# hook commits of /repo, read from its history (every commit whose subject starts with "verif hook:")
import subprocess
log = subprocess.run(["git", "-C", "/repo", "log", "--format=%h %s", "--grep=^verif hook"], capture_output=True, text=True).stdout.strip().split("\n")
if log and log[0]:
    base["hooks"]["source_commits"] = log
for e in base["engines"]:
    e["serves_properties"] = claimed
base["checks"] = checks
base["not_applicable"] = nal
json.dump(base, open(os.path.join(R, "MANIFEST.json"), "w"), indent=1)
print("claimed:", claimed)

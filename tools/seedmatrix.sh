#!/bin/bash
# tools/seedmatrix.sh [Cxx | Cxx/k ...]  -- run kept seeded changes against their property's quick check (scratch worktrees);
# one row per seed in seeded/.rows/<P>-<k>.row (safe to run several properties in parallel); seeded/MATRIX.md is rebuilt from the rows
cd /verif
ARGS=${@:-$(ls seeded | grep '^C')}
OUT=seeded/MATRIX.md
mkdir -p seeded/.rows
for a in $ARGS; do
  p=${a%%/*}
  if [ "$a" = "$p" ]; then DIRS=$(ls -d seeded/$p/*/); else DIRS=seeded/$a/; fi
  for d in $DIRS; do k=$(basename $d)
  WT=/tmp/st-$p
  [ -d $WT ] || git -C /repo worktree add -q $WT HEAD
  (cd $WT && git checkout -q -- . && git clean -fdq -e target && git reset -q --hard $(git -C /repo rev-parse HEAD) && git apply /verif/$d/patch.diff) || { echo "| $p/$k | $p | PATCH-DOES-NOT-APPLY | |" > seeded/.rows/$p-$k.row; echo "$p/$k: PATCH-DOES-NOT-APPLY"; continue; }
  VERIF_REPO=$WT timeout 3000 ./check $p > /tmp/sm_${p}_$k.out 2>&1; rc=$?
  why=$(grep -m1 "^  ->" /tmp/sm_${p}_$k.out | cut -c6-220 | tr '|' '/')
  nf=$(grep -c "no-failing-input-found" /tmp/sm_${p}_$k.out)
  nv=$(grep -c "^VIOLATION" /tmp/sm_${p}_$k.out)
  v="MISSED"; [ $rc -eq 1 ] && v="caught ($nv violation lines$([ $nf -gt 0 ] && [ $nf -eq $nv ] && echo ', no concrete input'))"; [ $rc -gt 1 ] && v="ERROR rc=$rc"
  echo "| $p/$k | $p | $v | $why |" > seeded/.rows/$p-$k.row
  echo "$p/$k: $v"
  (cd $WT && git checkout -q -- . && git clean -fdq -e target)
done; done
{ echo "| seed | check | verdict | first reported reason |"; cat seeded/.rows/*.row | sort -t'|' -k2,2; } > $OUT

#!/bin/bash
# tools/seedtest.sh <PID> <dir-with-patch.diff+demo> [check ids...]   -- run checks against a seeded change in a scratch worktree
PID=$1; D=$2; shift 2; CHECKS=${@:-$PID}
WT=/tmp/st-$PID
[ -d $WT ] || git -C /repo worktree add -q $WT HEAD
cd $WT && git checkout -q -- . && git clean -fdq -e target && git apply $D/patch.diff || { echo "patch does not apply"; exit 2; }
cd /verif
for c in $CHECKS; do
  echo "== $c (tier ${VERIF_TIER:-quick}) against $D"
  VERIF_REPO=$WT timeout 3000 ./check $c 2>&1 | grep -E "^  ->|^C[0-9]+ |VIOLATION" | cut -c1-260 | awk '!seen[$0]++' | head -${SEED_LINES:-8}
done
cd $WT && git checkout -q -- . && git clean -fdq -e target

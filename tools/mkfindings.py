#!/usr/bin/env python3
"""Rebuild the summary part of known_findings.json from known_findings.d/*.json:
 - "fixed": one line per repaired defect, `fixed: property=<id> <commit> <what failed>` (a fixed entry suppresses nothing)
 - "open_index": id -> properties, for orientation.  The per-property files stay the source the checks read."""
import json, os, glob
R = os.path.dirname(os.path.dirname(os.path.abspath(__file__)))
fixed, index = [], {}
for p in sorted(glob.glob(os.path.join(R, "known_findings.d", "*.json"))):
    for f in json.load(open(p)).get("findings", []):
        props = f.get("properties") or [f.get("property")]
        if f.get("status", "open") == "fixed":
            for pr in props:
                fixed.append("fixed: property=%s %s %s [%s]" % (pr, f.get("commit", "?"), f["what"].replace("\n", " ")[:200], f["id"]))
        else:
            index[f["id"]] = sorted(set(index.get(f["id"], []) + props))
out = {"comment": "Genuine defects of max-sixty/prql found by this framework.  Open ones are recorded per property in known_findings.d/*.json (the files the checks load; never written at run time); repaired ones are listed here and there with status fixed: they suppress nothing.",
       "findings": [], "fixed": sorted(set(fixed)), "open_index": index}
json.dump(out, open(os.path.join(R, "known_findings.json"), "w"), indent=1)
print(len(out["fixed"]), "fixed lines;", len(index), "open ids")

#!/bin/bash
# tools/sweep.sh "<props>" <from> <to>  -- run quick checks over a seed range, print violations and summaries
for s in $(seq $2 $3); do for p in $1; do
  VERIF_SEED=$s ./check $p > /tmp/sweep_$$.out 2>&1; rc=$?
  echo "seed=$s $p rc=$rc $(tail -1 /tmp/sweep_$$.out | cut -c1-200)"
  grep -E "^  ->" /tmp/sweep_$$.out | cut -c1-300 | sort | uniq -c | sort -rn | head -5
done; done

#!/bin/bash
# tools/confirm_seed.sh <dir with patch.diff + demo.*>  -- confirm in the scratch worktree /tmp/wt-fix:
#   patch applies, workspace test suite passes with it, demo FAILS with it and PASSES without it
D=$1; WT=/tmp/wt-fix
DEMO=$(ls $D/demo.* | head -1)
run_demo() { case "$DEMO" in *.py) python3 $DEMO $WT;; *) bash $DEMO $WT;; esac; }
cd $WT && git checkout -q -- . && git clean -fdq -e target
git apply $D/patch.diff || { echo "CONFIRM: patch does not apply"; exit 2; }
T=$(cargo +1.91.1 test --workspace --offline --no-fail-fast 2>&1 | grep -E "^test result" | awk '{p+=$4; f+=$6} END {print p" passed, "f" failed"}')
echo "CONFIRM tests with patch: $T"
run_demo > /tmp/demo_with.txt 2>&1; RW=$?
git checkout -q -- . && git clean -fdq -e target
run_demo > /tmp/demo_without.txt 2>&1; RO=$?
echo "CONFIRM demo with patch exit=$RW (expect 1), without exit=$RO (expect 0)"

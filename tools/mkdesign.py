#!/usr/bin/env python3
"""refresh the generated regions of DESIGN.md (findings table, seed matrix)"""
import os, re, subprocess
R = os.path.dirname(os.path.dirname(os.path.abspath(__file__)))
p = os.path.join(R, "DESIGN.md")
s = open(p).read()
def region(name, body):
    global s
    a = s.index("<!-- BEGIN:%s -->" % name) + len("<!-- BEGIN:%s -->" % name)
    b = s.index("<!-- END:%s -->" % name)
    s = s[:a] + "\n" + body.strip("\n") + "\n" + s[b:]
region("findings", subprocess.run(["python3", os.path.join(R, "tools", "findings_table.py")], capture_output=True, text=True).stdout)
def gitlog(pat):
    out = subprocess.run(["git", "-C", "/repo", "log", "--reverse", "--format=%h %s", "--grep=" + pat], capture_output=True, text=True).stdout.strip()
    return [l for l in out.split("\n") if l]
region("hooks", "\n".join("   - `%s`" % l for l in gitlog("^verif hook")))
region("repairs", "\n".join(" * `%s`" % l for l in gitlog("^fix:")))
m = os.path.join(R, "seeded", "MATRIX.md")
if os.path.exists(m):
    rows = [l for l in open(m).read().split("\n") if l.startswith("| C")]
    head = "| seed | check | verdict | first reported reason |\n|---|---|---|---|\n"
    region("seeds", head + "\n".join(sorted(rows)))
open(p, "w").write(s)
print("DESIGN.md regions refreshed")

#!/usr/bin/env python3
"""refresh the generated regions of DESIGN.md (findings table, seed matrix)"""
import os, re, subprocess
R = os.path.dirname(os.path.dirname(os.path.abspath(__file__)))
p = os.path.join(R, "DESIGN.md")
s = open(p).read()
def region(name, body):
    global s
    a = s.index("<!-- BEGIN:%s -->" % name) + len("<!-- BEGIN:%s -->" % name)
    b = s.index("<!-- END:%s -->" % name)
    s = s[:a] + "\n" + body.strip("\n") + "\n" + s[b:]
region("findings", subprocess.run(["python3", os.path.join(R, "tools", "findings_table.py")], capture_output=True, text=True).stdout)
def gitlog(pat):
    out = subprocess.run(["git", "-C", "/repo", "log", "--reverse", "--format=%h %s", "--grep=" + pat], capture_output=True, text=True).stdout.strip()
    return [l for l in out.split("\n") if l]
region("hooks", "\n".join("   - `%s`" % l for l in gitlog("^verif hook")))
region("repairs", "\n".join(" * `%s`" % l for l in gitlog("^fix:")))
# per-property table: theorem counts from Props/*.v, translators from the Gen imports, technique from manifest.d
import glob, json
rows = ["| prop | theorems in `Props/` | translators (source -> `coq/Gen`) | deciding method | notes |", "|---|---|---|---|---|"]
gen_of = {}
for f in glob.glob(os.path.join(R, "vplib", "translate", "gen_*.py")) + glob.glob(os.path.join(R, "vplib", "props", "*_gen.py")):
    for g in re.findall(r'gen_write\(\s*"(\w+)"', open(f).read()):
        gen_of[g] = os.path.basename(f)[:-3]
def closure(pid):
    seen, todo = set(), ["Props/%s.v" % pid]
    while todo:
        f = todo.pop()
        if f in seen or not os.path.exists(os.path.join(R, "coq", f)): continue
        seen.add(f)
        for line in re.findall(r"From PV Require (?:Import|Export)([^.]*(?:\.[A-Za-z][^.]*)*)\.\s", open(os.path.join(R, "coq", f)).read()):
            for mod in line.split():
                todo.append(mod.replace(".", "/") + ".v")
    return seen
for pf in sorted(glob.glob(os.path.join(R, "coq", "Props", "C*.v"))):
    pid = os.path.basename(pf)[:-2]
    src = open(pf).read()
    n = len(re.findall(r"^\s*(?:Theorem|Lemma|Corollary)\s", src, re.M))
    gens = sorted({gen_of.get(os.path.basename(f)[:-2], os.path.basename(f)[:-2]) for f in closure(pid) if f.startswith("Gen/")})
    mf = os.path.join(R, "manifest.d", pid + ".json")
    tech = json.load(open(mf)).get("technique", "") if os.path.exists(mf) else ""
    rows.append("| %s | %d | %s | %s | `design.d/%s.md` |" % (pid, n, ", ".join(gens) or "— (hand model + correspondence)", tech.replace("|", "/")[:260], pid))
region("perprop", "\n".join(rows))
props_rows = []
for f in sorted(glob.glob(os.path.join(R, "fixes", "*.diff"))):
    rev = subprocess.run(["git", "-C", "/repo", "apply", "--check", "-R", f], capture_output=True).returncode == 0
    fwd = subprocess.run(["git", "-C", "/repo", "apply", "--check", f], capture_output=True).returncode == 0
    if not rev and fwd:
        props_rows.append(" * `fixes/%s`" % os.path.basename(f))
region("proposals", "\n".join(props_rows) or " * (none)")
m = os.path.join(R, "seeded", "MATRIX.md")
if os.path.exists(m):
    rows = [l for l in open(m).read().split("\n") if l.startswith("| C")]
    head = "| seed | check | verdict | first reported reason |\n|---|---|---|---|\n"
    region("seeds", head + "\n".join(sorted(rows)))
open(p, "w").write(s)
print("DESIGN.md regions refreshed")

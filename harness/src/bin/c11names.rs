// C11: generated-name state per call, attributed EXACTLY under threads.
//
// A separate binary because the `log` crate takes one logger per process and vharness' main.rs installs prqlc's
// MessageLogger (which writes into the process-global debug log, whose suppression counter drops the lines of other threads
// while one call loads std).  This logger keeps the `verif:namegen` / `verif:pq-names` lines (hooks 44c332e, d5c1b7e, 123c8b6)
// in a THREAD-LOCAL buffer: a line belongs to the call that was running on the thread that emitted it.
//
// stdin: JSON lines {"par": {"n": threads, "m": repetitions, "reqs": [{src, target?, format?, sig?}..]}}
//        or          {"steps": [req..]}                       (a history on the main thread)
// stdout: {"threads": [[{"r": result, "names": [line..]} x m] x n]}  /  {"steps": [{"r", "names"}..]}
use std::cell::RefCell;
use std::io::{BufRead, Write};
use std::str::FromStr;

use serde_json::{json, Value};

thread_local! {
    static LINES: RefCell<Vec<String>> = const { RefCell::new(Vec::new()) };
}

struct PerThread;

impl log::Log for PerThread {
    fn enabled(&self, _m: &log::Metadata) -> bool {
        true
    }
    fn log(&self, record: &log::Record) {
        let text = format!("{}", record.args());
        if text.starts_with("verif:namegen") || text.starts_with("verif:pq-names") {
            LINES.with(|l| l.borrow_mut().push(text));
        }
    }
    fn flush(&self) {}
}

static LOGGER: PerThread = PerThread;

fn options(req: &Value) -> Result<prqlc::Options, Value> {
    let mut o = prqlc::Options::default()
        .with_format(req.get("format").and_then(|v| v.as_bool()).unwrap_or(false))
        .with_signature_comment(req.get("sig").and_then(|v| v.as_bool()).unwrap_or(false))
        .with_color(false);
    match req.get("target") {
        None | Some(Value::Null) => {}
        Some(Value::String(t)) => match prqlc::Target::from_str(t) {
            Ok(t) => o = o.with_target(t),
            Err(e) => return Err(json!({"err_target": format!("{:?}", e.reason)})),
        },
        Some(_) => return Err(json!({"err_target": "bad request"})),
    }
    Ok(o)
}

fn one_call(req: &Value) -> Value {
    LINES.with(|l| l.borrow_mut().clear());
    let r = match options(req) {
        Err(v) => v,
        Ok(o) => {
            let src = req.get("src").and_then(|v| v.as_str()).unwrap_or("").to_string();
            match std::panic::catch_unwind(std::panic::AssertUnwindSafe(|| prqlc::compile(&src, &o))) {
                Ok(Ok(sql)) => json!({ "ok": sql }),
                Ok(Err(e)) => json!({"err": e.inner.iter().map(|m| m.reason.clone()).collect::<Vec<_>>()}),
                Err(_) => json!({"panic": true}),
            }
        }
    };
    let names: Vec<String> = LINES.with(|l| l.borrow_mut().drain(..).collect());
    json!({"r": r, "names": names})
}

fn main() {
    std::panic::set_hook(Box::new(|_| {}));
    let _ = prqlc::compiler_version();
    let _ = log::set_logger(&LOGGER);
    log::set_max_level(log::LevelFilter::Debug);
    let stdin = std::io::stdin();
    let stdout = std::io::stdout();
    let mut out = std::io::BufWriter::new(stdout.lock());
    for line in stdin.lock().lines() {
        let Ok(line) = line else { break };
        if line.trim().is_empty() {
            continue;
        }
        let req: Value = match serde_json::from_str(&line) {
            Ok(v) => v,
            Err(e) => {
                let _ = writeln!(out, "{}", json!({"bad_request": e.to_string()}));
                continue;
            }
        };
        let ans = if let Some(par) = req.get("par") {
            let n = par.get("n").and_then(|v| v.as_u64()).unwrap_or(16) as usize;
            let m = par.get("m").and_then(|v| v.as_u64()).unwrap_or(1) as usize;
            let reqs: Vec<Value> = par.get("reqs").and_then(|v| v.as_array()).cloned().unwrap_or_default();
            // stack of the worker threads (default: more than the main thread has); 2 = what std::thread::spawn gives
            let stack_mb = par.get("stack_mb").and_then(|v| v.as_u64()).unwrap_or(256) as usize;
            if reqs.is_empty() {
                json!({"bad_request": "no reqs"})
            } else {
                let barrier = std::sync::Arc::new(std::sync::Barrier::new(n));
                let mut handles = vec![];
                for i in 0..n {
                    let r = reqs[i % reqs.len()].clone();
                    let b = barrier.clone();
                    handles.push(
                        std::thread::Builder::new()
                            .stack_size(stack_mb << 20)
                            .spawn(move || {
                                b.wait();
                                (0..m).map(|_| one_call(&r)).collect::<Vec<Value>>()
                            })
                            .expect("spawn"),
                    );
                }
                let threads: Vec<Value> = handles
                    .into_iter()
                    .map(|h| h.join().map(Value::Array).unwrap_or_else(|_| json!([{"r": {"panic": "join"}, "names": []}])))
                    .collect();
                json!({ "threads": threads })
            }
        } else {
            let steps: Vec<Value> = req.get("steps").and_then(|v| v.as_array()).cloned().unwrap_or_default();
            json!({"steps": steps.iter().map(one_call).collect::<Vec<Value>>()})
        };
        let _ = writeln!(out, "{}", ans);
        let _ = out.flush();
    }
}

// harness commands owned by property C12
#![allow(unused_imports, dead_code)]
use std::io::Write;
use std::sync::mpsc;
use std::time::{Duration, Instant};

use serde_json::{json, Value};

fn run_entry(req: &Value) -> Value {
    let entry = crate::s(req, "entry").to_string();
    let src = crate::s(req, "src");
    match entry.as_str() {
        "tokens" => match prqlc::prql_to_tokens(src) {
            Ok(t) => json!({"ok": t.0.len()}),
            Err(e) => crate::errs(e),
        },
        "pl" => match prqlc::prql_to_pl(src) {
            Ok(_) => json!({"ok": true}),
            Err(e) => crate::errs(e),
        },
        "fmt" => match prqlc::prql_to_pl(src) {
            Ok(pl) => match prqlc::pl_to_prql(&pl) {
                Ok(t) => json!({ "ok": t.len() }),
                Err(e) => json!({"fmt_err": crate::errs(e)}),
            },
            Err(e) => crate::errs(e),
        },
        "rq" => match prqlc::prql_to_pl(src).and_then(prqlc::pl_to_rq) {
            Ok(_) => json!({"ok": true}),
            Err(e) => crate::errs(e),
        },
        "compile" => crate::cmd_compile(req),
        // PL from JSON: resolve + lower, and format
        "json_pl" => match prqlc::json::to_pl(src) {
            Ok(pl) => {
                let r = match prqlc::pl_to_rq(pl.clone()) {
                    Ok(_) => json!({"ok": true}),
                    Err(e) => crate::errs(e),
                };
                if req.get("no_fmt").and_then(|v| v.as_bool()) != Some(true) {
                    let _ = prqlc::pl_to_prql(&pl);
                }
                r
            }
            Err(e) => crate::errs(e),
        },
        // PL from JSON: resolve + lower, answer the RQ as JSON (correspondence of the constant folding of `std.neg`)
        "json_pl_rq" => match prqlc::json::to_pl(src) {
            Ok(pl) => match prqlc::pl_to_rq(pl) {
                Ok(rq) => match prqlc::json::from_rq(&rq) {
                    Ok(j) => match serde_json::from_str::<Value>(&j) {
                        Ok(v) => json!({ "ok": v }),
                        Err(e) => json!({"bad_rq_json": e.to_string()}),
                    },
                    Err(e) => crate::errs(e),
                },
                Err(e) => crate::errs(e),
            },
            Err(e) => crate::errs(e),
        },
        // RQ from JSON: SQL generation
        "json_rq" => match prqlc::json::to_rq(src) {
            Ok(rq) => match crate::options(req) {
                Ok(o) => match prqlc::rq_to_sql(rq, &o) {
                    Ok(sql) => json!({ "ok": sql }),
                    Err(e) => crate::errs(e),
                },
                Err(v) => v,
            },
            Err(e) => crate::errs(e),
        },
        _ => json!({"bad_entry": entry}),
    }
}

// c12probe {entry, src, stack_mb?, target?, cap_ms?}
//   one public entry point on one input, under catch_unwind, in a thread with a fixed stack, timed.
//   answer {"r": .., "ms": n}.  When the thread does not answer within cap_ms the line {"hang": cap_ms}
//   is written and the PROCESS EXITS (a spinning thread cannot be cancelled): the driver sees a short
//   answer list and continues with the remaining requests in a new process, exactly as after an abort.
fn cmd_c12probe(req: &Value) -> Value {
    let reqc = req.clone();
    let stack = req.get("stack_mb").and_then(|v| v.as_u64()).unwrap_or(64) as usize * 1024 * 1024;
    let cap = req.get("cap_ms").and_then(|v| v.as_u64()).unwrap_or(20000);
    // `"log":"off"`: the probe runs with logging disabled, as in a normal embedding without a logger.  (main() sets the
    // maximum level to Debug for the hook streams; at that level every log::debug! of the compiler -- and, in this
    // cfg(prqlc_verif) build, every verification hook -- builds its arguments, which costs up to quadratic time on long
    // inputs and is not a cost of the product.)  Timing-sensitive streams of C12 ask for it.
    if req.get("log").and_then(|v| v.as_str()) == Some("off") {
        log::set_max_level(log::LevelFilter::Off);
    } else {
        log::set_max_level(log::LevelFilter::Debug);
    }
    let (tx, rx) = mpsc::channel();
    let h = std::thread::Builder::new().stack_size(stack).spawn(move || {
        let t0 = Instant::now();
        let v = crate::guarded(|| run_entry(&reqc));
        let _ = tx.send(json!({"r": v, "ms": t0.elapsed().as_millis() as u64}));
    });
    match h {
        Err(e) => json!({"spawn_err": e.to_string()}),
        Ok(_h) => match rx.recv_timeout(Duration::from_millis(cap)) {
            Ok(v) => v,
            Err(mpsc::RecvTimeoutError::Timeout) => {
                let so = std::io::stdout();
                let mut l = so.lock();
                let _ = writeln!(l, "{}", json!({"hang": cap}));
                let _ = l.flush();
                std::process::exit(3);
            }
            Err(mpsc::RecvTimeoutError::Disconnected) => json!({"panic": {"msg": "probe thread died", "loc": ""}}),
        },
    }
}

// c12fmt {src}: prql_to_pl -> pl_to_prql with the compiler's debug log on; answers the formatted text and, when the tree has the
// hook `verif:fmt-calls`, the number of invocations of <pr::Expr as WriteSource>::write it reports ("calls": null otherwise)
fn cmd_c12fmt(req: &Value) -> Value {
    let src = crate::s(req, "src").to_string();
    let _ = prqlc::debug::log_finish();
    prqlc::debug::log_start();
    let r = crate::guarded(|| match prqlc::prql_to_pl(&src) {
        Ok(pl) => match prqlc::pl_to_prql(&pl) {
            Ok(t) => json!({ "ok": t }),
            Err(e) => crate::errs(e),
        },
        Err(e) => crate::errs(e),
    });
    let log = prqlc::debug::log_finish();
    let mut calls = Value::Null;
    if let Some(log) = log {
        if let Ok(v) = serde_json::to_value(&log) {
            if let Some(es) = v.get("entries").and_then(|e| e.as_array()) {
                for e in es {
                    let text = e.get("kind").and_then(|k| k.get("Message")).and_then(|m| m.get("text")).and_then(|t| t.as_str());
                    if let Some(t) = text {
                        if let Some(j) = t.strip_prefix("verif:fmt-calls ") {
                            if let Ok(v) = serde_json::from_str::<Value>(j) {
                                calls = v.get("expr_writes").cloned().unwrap_or(Value::Null);
                            }
                        }
                    }
                }
            }
        }
    }
    let mut out = r;
    out["calls"] = calls;
    out
}

pub fn dispatch(cmd: &str, req: &Value) -> Option<Value> {
    match cmd {
        "c12probe" => Some(cmd_c12probe(req)),
        "c12fmt" => Some(cmd_c12fmt(req)),
        _ => None,
    }
}

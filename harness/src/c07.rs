// harness commands owned by property C07
//   c07_parse {sql, dialect}  -> sqlparser's parser for the sqlparser dialect that corresponds EXACTLY to the prqlc
//                                dialect name (redshift -> RedshiftSqlDialect, glaredb -> PostgreSqlDialect, ansi ->
//                                AnsiDialect): {n: #statements, ast: [...]} with every "span"/"*_token" member removed
//                                (they are positions, not structure), or {parse_err}.
//   c07_toks {sql, dialect}   -> sqlparser's tokenizer with locations: {toks: [[kind, text, line, col_start, col_end]]}
//                                including comment tokens (kind "Comment") and ";" (kind "SemiColon"); whitespace dropped.
//                                Adjacent tokens are glued iff end of one == start of the next on the same line.
#![allow(unused_imports, dead_code)]
use serde_json::{json, Value};

fn dialect_by_name(name: &str) -> Option<Box<dyn sqlparser::dialect::Dialect>> {
    use sqlparser::dialect::*;
    Some(match name {
        "ansi" => Box::new(AnsiDialect {}),
        "bigquery" => Box::new(BigQueryDialect {}),
        "clickhouse" => Box::new(ClickHouseDialect {}),
        "duckdb" => Box::new(DuckDbDialect {}),
        "generic" => Box::new(GenericDialect {}),
        "glaredb" => Box::new(PostgreSqlDialect {}),
        "mssql" => Box::new(MsSqlDialect {}),
        "mysql" => Box::new(MySqlDialect {}),
        "postgres" => Box::new(PostgreSqlDialect {}),
        "redshift" => Box::new(RedshiftSqlDialect {}),
        "sqlite" => Box::new(SQLiteDialect {}),
        "snowflake" => Box::new(SnowflakeDialect {}),
        _ => return None,
    })
}

fn strip(v: &mut Value) {
    match v {
        Value::Object(m) => {
            let keys: Vec<String> = m
                .keys()
                .filter(|k| k.as_str() == "span" || k.ends_with("_token"))
                .cloned()
                .collect();
            for k in keys {
                m.remove(&k);
            }
            for (_, x) in m.iter_mut() {
                strip(x);
            }
        }
        Value::Array(a) => {
            for x in a.iter_mut() {
                strip(x);
            }
        }
        _ => {}
    }
}

fn parse(req: &Value) -> Value {
    let d = match dialect_by_name(crate::s(req, "dialect")) {
        Some(d) => d,
        None => return json!({"bad_dialect": crate::s(req, "dialect")}),
    };
    match sqlparser::parser::Parser::parse_sql(&*d, crate::s(req, "sql")) {
        Ok(stmts) => {
            let mut ast = serde_json::to_value(&stmts).unwrap_or(Value::Null);
            strip(&mut ast);
            json!({"n": stmts.len(), "ast": ast})
        }
        Err(e) => json!({"parse_err": e.to_string()}),
    }
}

fn toks(req: &Value) -> Value {
    use sqlparser::tokenizer::{Token, Tokenizer, Whitespace};
    let d = match dialect_by_name(crate::s(req, "dialect")) {
        Some(d) => d,
        None => return json!({"bad_dialect": crate::s(req, "dialect")}),
    };
    let mut t = Tokenizer::new(&*d, crate::s(req, "sql"));
    match t.tokenize_with_location() {
        Ok(ts) => {
            let mut out = vec![];
            for tw in ts.iter() {
                let kind = match &tw.token {
                    Token::Whitespace(Whitespace::SingleLineComment { .. })
                    | Token::Whitespace(Whitespace::MultiLineComment(_)) => "Comment".to_string(),
                    Token::Whitespace(_) => continue,
                    Token::EOF => continue,
                    other => format!("{:?}", other)
                        .split(['(', ' ', '{'])
                        .next()
                        .unwrap_or("")
                        .to_string(),
                };
                out.push(json!([
                    kind,
                    tw.token.to_string(),
                    tw.span.start.line,
                    tw.span.start.column,
                    tw.span.end.column
                ]));
            }
            json!({ "toks": out })
        }
        Err(e) => json!({"tok_err": e.to_string()}),
    }
}

pub fn dispatch(cmd: &str, req: &Value) -> Option<Value> {
    match cmd {
        "c07_parse" => Some(parse(req)),
        "c07_toks" => Some(toks(req)),
        _ => None,
    }
}

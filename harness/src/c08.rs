// harness commands owned by property C08
//   c08_tok {sql, dialect}  -> sqlparser's tokenizer for the sqlparser dialect that corresponds to the
//                              prqlc dialect NAME (exact mapping, unlike main.rs sp_dialect which folds
//                              redshift/glaredb into postgres): [{k, v}] without plain whitespace;
//                              string tokens carry the UNESCAPED value.
//   c08_dialects {}         -> per prqlc dialect name: does sqlparser's dialect treat backslash as an
//                              escape inside '...' / keep \% \_ (the documented family split used by
//                              Model/SqlLex.v)
//   c08_float {text}        -> Rust's f64 parse + {:?} of a decimal spelling (what translate_literal prints)
#![allow(unused_imports, dead_code)]
use serde_json::{json, Value};

fn dialect_by_name(name: &str) -> Option<Box<dyn sqlparser::dialect::Dialect>> {
    use sqlparser::dialect::*;
    Some(match name {
        "ansi" => Box::new(AnsiDialect {}),
        "bigquery" => Box::new(BigQueryDialect {}),
        "clickhouse" => Box::new(ClickHouseDialect {}),
        "duckdb" => Box::new(DuckDbDialect {}),
        "generic" => Box::new(GenericDialect {}),
        "glaredb" => Box::new(PostgreSqlDialect {}),
        "mssql" => Box::new(MsSqlDialect {}),
        "mysql" => Box::new(MySqlDialect {}),
        "postgres" => Box::new(PostgreSqlDialect {}),
        "redshift" => Box::new(RedshiftSqlDialect {}),
        "sqlite" => Box::new(SQLiteDialect {}),
        "snowflake" => Box::new(SnowflakeDialect {}),
        _ => return None,
    })
}

fn tok(req: &Value) -> Value {
    use sqlparser::tokenizer::{Token, Tokenizer, Whitespace};
    let d = match dialect_by_name(crate::s(req, "dialect")) {
        Some(d) => d,
        None => return json!({"bad_dialect": crate::s(req, "dialect")}),
    };
    let mut t = Tokenizer::new(&*d, crate::s(req, "sql"));
    match t.tokenize() {
        Ok(toks) => {
            let mut out = vec![];
            for t in toks {
                let (k, v) = match &t {
                    Token::Whitespace(Whitespace::SingleLineComment { .. })
                    | Token::Whitespace(Whitespace::MultiLineComment(_)) => continue,
                    Token::Whitespace(_) => continue,
                    Token::SingleQuotedString(s) => ("String", s.clone()),
                    // BigQuery: a literal opened by three quotes; its value is a string like any other
                    Token::TripleSingleQuotedString(s) => ("String", s.clone()),
                    // N'...' (national string literal): a string token too; its value is what matters
                    Token::NationalStringLiteral(s) => ("String", s.clone()),
                    Token::Number(s, _) => ("Number", s.clone()),
                    Token::Word(w) => match w.quote_style {
                        Some(q) => ("Quoted", format!("{}{}", q, w.value)),
                        None => ("Word", w.value.clone()),
                    },
                    Token::DoubleQuotedString(s) => ("DString", s.clone()),
                    Token::EOF => continue,
                    other => ("Punct", other.to_string()),
                };
                out.push(json!({"k": k, "v": v}));
            }
            json!({ "ok": out })
        }
        Err(e) => json!({"tok_err": e.to_string()}),
    }
}

fn dialects() -> Value {
    let mut m = serde_json::Map::new();
    for n in prqlc::Target::names() {
        let n = n.trim_start_matches("sql.").to_string();
        if let Some(d) = dialect_by_name(&n) {
            m.insert(
                n,
                json!({"bs": d.supports_string_literal_backslash_escape(), "wild": d.ignores_wildcard_escapes()}),
            );
        }
    }
    Value::Object(m)
}

fn float(req: &Value) -> Value {
    match crate::s(req, "text").parse::<f64>() {
        Ok(f) => json!({"debug": format!("{f:?}"), "display": format!("{f}"), "finite": f.is_finite(), "bits": format!("{:016x}", f.to_bits())}),
        Err(e) => json!({"err": e.to_string()}),
    }
}

pub fn dispatch(cmd: &str, req: &Value) -> Option<Value> {
    match cmd {
        "c08_tok" => Some(tok(req)),
        "c08_dialects" => Some(dialects()),
        "c08_float" => Some(float(req)),
        _ => None,
    }
}

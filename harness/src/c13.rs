// harness commands owned by property C13
#![allow(unused_imports, dead_code)]
use std::path::PathBuf;

use serde_json::{json, Value};

// c13tree {files:[[path,content],..], main_path?:[..], database?:[..], target?}   (path: string or array of bytes)
//   multi-file project through the public tree API: SourceTree::new + prql_to_pl_tree + pl_to_rq_tree
//   + rq_to_sql; errors of every stage are composed against the tree (ErrorMessages::composed),
//   exactly what the CLI does.  Answer: {ok:sql} | {err:[..], stage} ; plus "ids": {source_id: path}
//   (SourceTree::get_path over 0..n+2), so the check can name the file a span refers to.
// a path is a JSON string, or an array of bytes (for paths that are not UTF-8)
fn path_of(v: &Value) -> Option<PathBuf> {
    if let Some(s) = v.as_str() {
        return Some(PathBuf::from(s));
    }
    use std::os::unix::ffi::OsStringExt;
    let bytes: Vec<u8> = v.as_array()?.iter().filter_map(|b| b.as_u64().map(|b| b as u8)).collect();
    Some(PathBuf::from(std::ffi::OsString::from_vec(bytes)))
}

fn cmd_tree(req: &Value) -> Value {
    let files: Vec<(PathBuf, String)> = match req.get("files") {
        Some(Value::Array(a)) => a
            .iter()
            .filter_map(|p| {
                let p = p.as_array()?;
                Some((path_of(p.first()?)?, p.get(1)?.as_str()?.to_string()))
            })
            .collect(),
        _ => vec![],
    };
    let n = files.len();
    let tree = prqlc::SourceTree::new(files, None);
    let mut ids = serde_json::Map::new();
    for i in 0..(n as u16 + 2) {
        if let Some(p) = tree.get_path(i) {
            ids.insert(i.to_string(), json!(p.to_string_lossy()));
        }
    }
    let main_path: Vec<String> = match req.get("main_path") {
        Some(Value::Array(a)) => a.iter().filter_map(|x| x.as_str().map(|s| s.to_string())).collect(),
        _ => vec![],
    };
    let o = match crate::options(req) {
        Ok(o) => o,
        Err(v) => return v,
    };
    // database module path: `default_db` (what compile and the CLI use) unless the request names another one
    let database: Vec<String> = match req.get("database") {
        Some(Value::Array(a)) => a.iter().filter_map(|x| x.as_str().map(|s| s.to_string())).collect(),
        _ => vec![prqlc::semantic::NS_DEFAULT_DB.to_string()],
    };
    let mut stage = "parse";
    let r = prqlc::prql_to_pl_tree(&tree)
        .and_then(|pl| {
            stage = "resolve";
            prqlc::pl_to_rq_tree(pl, &main_path, &database).map_err(|e| e.composed(&tree))
        })
        .and_then(|rq| {
            stage = "sql";
            prqlc::rq_to_sql(rq, &o).map_err(|e| e.composed(&tree))
        });
    let mut v = match r {
        Ok(sql) => json!({ "ok": sql }),
        Err(e) => crate::errs(e),
    };
    v["stage"] = json!(stage);
    v["ids"] = Value::Object(ids);
    v
}

// c13lex {src}: prql_to_tokens errors (composed against the one-file tree since d650e1d: char spans of
// convert_lexer_error with source id 1, location, display) and, when lexing succeeds, the byte spans of the
// tokens (what the parser's map_span reads).
fn cmd_lexspans(req: &Value) -> Value {
    match prqlc::prql_to_tokens(crate::s(req, "src")) {
        Ok(t) => {
            let v: Vec<Value> = t
                .0
                .iter()
                .map(|t| {
                    let skip = matches!(t.kind, prqlc::lr::TokenKind::Comment(_) | prqlc::lr::TokenKind::LineWrap(_));
                    json!({"k": format!("{}", t.kind), "s": t.span.start, "e": t.span.end, "skip": skip})
                })
                .collect();
            json!({ "ok": v })
        }
        Err(e) => crate::errs(e),
    }
}

// c13compose {files:[[path,content],..], spans:[[start,end,source_id],..]}
//   ErrorMessages::composed on a message made from Error::new_simple("x").with_span(span) (through
//   From<Error> for ErrorMessages), against SourceTree::new(files): one answer per span,
//   {span: {..}|null, location: {..}|null, display: bool} or {panic: ..} (the assert in `composed`).
fn cmd_compose(req: &Value) -> Value {
    use prqlc::WithErrorInfo;
    let files: Vec<(PathBuf, String)> = match req.get("files") {
        Some(Value::Array(a)) => a
            .iter()
            .filter_map(|p| {
                let p = p.as_array()?;
                Some((path_of(p.first()?)?, p.get(1)?.as_str()?.to_string()))
            })
            .collect(),
        _ => vec![],
    };
    let tree = prqlc::SourceTree::new(files, None);
    let mut out = Vec::new();
    if let Some(Value::Array(spans)) = req.get("spans") {
        for sp in spans {
            let g = |i: usize| sp.get(i).and_then(|v| v.as_u64()).unwrap_or(0);
            let span = prqlc::Span { start: g(0) as usize, end: g(1) as usize, source_id: g(2) as u16 };
            let tree = &tree;
            out.push(crate::guarded(move || {
                let e = prqlc::Error::new_simple("x").with_span(Some(span));
                let m = prqlc::ErrorMessages::from(e).composed(tree);
                let m = &m.inner[0];
                json!({
                    "span": m.span.map(|s| json!({"start": s.start, "end": s.end, "source_id": s.source_id})),
                    "location": m.location.as_ref().map(|l| json!({"start": [l.start.0, l.start.1], "end": [l.end.0, l.end.1]})),
                    "display": m.display.is_some(),
                })
            }));
        }
    }
    json!({ "ok": out })
}

pub fn dispatch(cmd: &str, req: &Value) -> Option<Value> {
    match cmd {
        "c13tree" => Some(cmd_tree(req)),
        "c13lex" => Some(cmd_lexspans(req)),
        "c13compose" => Some(cmd_compose(req)),
        _ => None,
    }
}

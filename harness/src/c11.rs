// harness commands owned by property C11 (compilation is a pure function of source tree and options)
#![allow(unused_imports, dead_code)]
use std::path::PathBuf;

use serde_json::{json, Value};

use crate::{errs, options, s};

// catch_unwind that reads the message from the panic payload itself (main.rs' `guarded` goes through one
// process-wide slot filled by the panic hook, which two threads panicking at once would race on)
fn guarded<F: FnOnce() -> Value>(f: F) -> Value {
    match std::panic::catch_unwind(std::panic::AssertUnwindSafe(f)) {
        Ok(v) => v,
        Err(p) => {
            let msg = if let Some(s) = p.downcast_ref::<&str>() {
                s.to_string()
            } else if let Some(s) = p.downcast_ref::<String>() {
                s.clone()
            } else {
                "<non-string panic payload>".to_string()
            };
            json!({"panic": {"msg": msg}})
        }
    }
}

// worker threads get the stack the main thread has and more: deep inputs (200-term operator chains) overflow the 2 MiB default
// of spawned threads and abort the process -- a robustness matter (C12), not what the thread streams of C11 are about
fn big_stack_thread<T: Send + 'static, F: FnOnce() -> T + Send + 'static>(f: F) -> std::thread::JoinHandle<T> {
    std::thread::Builder::new().stack_size(256 << 20).spawn(f).expect("spawn")
}

fn err_text(e: &prqlc::ErrorMessages) -> Value {
    // everything a caller can read from an error: kind, code, reason, hints, span, display, location
    errs(prqlc::ErrorMessages { inner: e.inner.clone() })
}

// every observable output of one source under one option set: SQL, RQ JSON text, formatter text, errors
fn outputs(req: &Value) -> Value {
    let o = match options(req) {
        Ok(o) => o,
        Err(v) => return v,
    };
    let src = s(req, "src");
    let mut out = serde_json::Map::new();
    let sql = guarded(|| match prqlc::compile(src, &o) {
        Ok(sql) => json!({ "ok": sql }),
        Err(e) => err_text(&e),
    });
    out.insert("sql".into(), sql);
    if req.get("only_sql").and_then(|v| v.as_bool()).unwrap_or(false) {
        return Value::Object(out);
    }
    let rq = guarded(|| match prqlc::prql_to_pl(src).and_then(prqlc::pl_to_rq) {
        Ok(rq) => match prqlc::json::from_rq(&rq) {
            Ok(j) => json!({ "ok": j }),
            Err(e) => err_text(&e),
        },
        Err(e) => err_text(&e),
    });
    out.insert("rq".into(), rq);
    let fmt = guarded(|| match prqlc::prql_to_pl(src) {
        Ok(pl) => match prqlc::pl_to_prql(&pl) {
            Ok(t) => json!({ "ok": t }),
            Err(e) => err_text(&e),
        },
        Err(_) => json!({"ok": null}),
    });
    out.insert("fmt".into(), fmt);
    Value::Object(out)
}

// {req, n}: the same request n times in this process (every HashMap gets a fresh RandomState key each time)
fn cmd_rep(req: &Value) -> Value {
    let n = req.get("n").and_then(|v| v.as_u64()).unwrap_or(8) as usize;
    let inner = req.get("req").cloned().unwrap_or(Value::Null);
    let mut outs: Vec<Value> = vec![];
    for _ in 0..n {
        outs.push(outputs(&inner));
    }
    json!({ "outs": outs })
}

// {steps: [req..]}: a history inside one process; every step is guarded (panics are caught and reported)
fn cmd_hist(req: &Value) -> Value {
    let steps: Vec<Value> = req.get("steps").and_then(|v| v.as_array()).cloned().unwrap_or_default();
    let mut outs = vec![];
    for st in steps {
        let kind = s(&st, "do").to_string();
        let r = match kind.as_str() {
            "log_start" => guarded(|| {
                prqlc::debug::log_start();
                json!({"ok": "log_start"})
            }),
            "log_finish" => guarded(|| {
                let l = prqlc::debug::log_finish();
                json!({"ok": if l.is_some() { "log_finish:some" } else { "log_finish:none" }})
            }),
            "set_env" => {
                std::env::set_var(s(&st, "key"), s(&st, "value"));
                json!({"ok": "set_env"})
            }
            "unset_env" => {
                std::env::remove_var(s(&st, "key"));
                json!({"ok": "unset_env"})
            }
            _ => outputs(&st),
        };
        outs.push(r);
    }
    json!({ "outs": outs })
}

// {n, m, reqs}: n threads at once; thread i runs reqs[i % len] m times; all outputs returned per thread
fn cmd_par(req: &Value) -> Value {
    let n = req.get("n").and_then(|v| v.as_u64()).unwrap_or(16) as usize;
    let m = req.get("m").and_then(|v| v.as_u64()).unwrap_or(2) as usize;
    let reqs: Vec<Value> = req.get("reqs").and_then(|v| v.as_array()).cloned().unwrap_or_default();
    if reqs.is_empty() {
        return json!({"bad_request": "no reqs"});
    }
    let with_log = req.get("with_log").and_then(|v| v.as_bool()).unwrap_or(false);
    if with_log {
        let _ = prqlc::debug::log_finish();
        prqlc::debug::log_start();
    }
    let barrier = std::sync::Arc::new(std::sync::Barrier::new(n));
    let mut handles = vec![];
    for i in 0..n {
        let r = reqs[i % reqs.len()].clone();
        let b = barrier.clone();
        handles.push(big_stack_thread(move || {
            b.wait();
            let mut v = vec![];
            for _ in 0..m {
                v.push(outputs(&r));
            }
            v
        }));
    }
    let outs: Vec<Value> = handles
        .into_iter()
        .map(|h| match h.join() {
            Ok(v) => Value::Array(v),
            Err(_) => json!([{"panic": {"msg": "thread join failed", "loc": ""}}]),
        })
        .collect();
    if with_log {
        let _ = prqlc::debug::log_finish();
    }
    json!({ "outs": outs })
}

// {files: [[path, content]..], main_path?: [..]}: a project inserted in the given order
fn cmd_tree(req: &Value) -> Value {
    let o = match options(req) {
        Ok(o) => o,
        Err(v) => return v,
    };
    let files: Vec<(PathBuf, String)> = req
        .get("files")
        .and_then(|v| v.as_array())
        .map(|a| {
            a.iter()
                .filter_map(|p| {
                    let p = p.as_array()?;
                    Some((PathBuf::from(p.first()?.as_str()?), p.get(1)?.as_str()?.to_string()))
                })
                .collect()
        })
        .unwrap_or_default();
    let use_insert = req.get("use_insert").and_then(|v| v.as_bool()).unwrap_or(false);
    let tree = if use_insert {
        let mut t = prqlc::SourceTree::default();
        for (p, c) in files {
            t.insert(p, c);
        }
        t
    } else {
        prqlc::SourceTree::new(files, None)
    };
    let main_path: Vec<String> = req
        .get("main_path")
        .and_then(|v| v.as_array())
        .map(|a| a.iter().filter_map(|x| x.as_str().map(|s| s.to_string())).collect())
        .unwrap_or_default();
    let mut out = serde_json::Map::new();
    let r = guarded(|| {
        let pl = match prqlc::prql_to_pl_tree(&tree) {
            Ok(pl) => pl,
            Err(e) => return json!({"stage": "parse", "r": err_text(&e)}),
        };
        let rq = match prqlc::pl_to_rq_tree(pl, &main_path, &["default_db".to_string()]) {
            Ok(rq) => rq,
            Err(e) => {
                let e = e.composed(&tree);
                return json!({"stage": "resolve", "r": err_text(&e)});
            }
        };
        let rqj = prqlc::json::from_rq(&rq).unwrap_or_default();
        match prqlc::rq_to_sql(rq, &o) {
            Ok(sql) => json!({"stage": "done", "r": {"ok": sql}, "rq": rqj}),
            Err(e) => {
                let e = e.composed(&tree);
                json!({"stage": "sql", "r": err_text(&e), "rq": rqj})
            }
        }
    });
    out.insert("out".into(), r);
    Value::Object(out)
}

// {src, ...}: compile with the debug log active and without; both results
fn cmd_log(req: &Value) -> Value {
    let plain = outputs(req);
    let _ = prqlc::debug::log_finish();
    prqlc::debug::log_start();
    let logged = outputs(req);
    let log = prqlc::debug::log_finish();
    let after = outputs(req);
    json!({"plain": plain, "logged": logged, "after": after, "log_entries": log.map(|l| serde_json::to_value(&l).ok().and_then(|v| v.get("entries").and_then(|e| e.as_array().map(|a| a.len()))).unwrap_or(0))})
}


// {src, compiles, restarts}: one thread compiles repeatedly while another restarts the debug log
// (log_finish; log_start) -- the only way left to disturb LogSuppressLock's bookkeeping
fn cmd_lograce(req: &Value) -> Value {
    let compiles = req.get("compiles").and_then(|v| v.as_u64()).unwrap_or(50) as usize;
    let restarts = req.get("restarts").and_then(|v| v.as_u64()).unwrap_or(2000) as usize;
    let _ = guarded(|| {
        let _ = prqlc::debug::log_finish();
        json!(null)
    });
    let before = outputs(req);
    prqlc::debug::log_start();
    let r = req.clone();
    let a = std::thread::spawn(move || {
        let mut panics: Vec<String> = vec![];
        for _ in 0..compiles {
            let o = outputs(&r);
            if let Some(m) = o.get("sql").and_then(|s| s.get("panic")).and_then(|p| p.get("msg")).and_then(|m| m.as_str()) {
                if !panics.iter().any(|x| x == m) {
                    panics.push(m.to_string());
                }
            }
        }
        panics
    });
    let b = std::thread::spawn(move || {
        let mut api_panics = 0usize;
        for _ in 0..restarts {
            let r = std::panic::catch_unwind(|| {
                let _ = prqlc::debug::log_finish();
                prqlc::debug::log_start();
            });
            if r.is_err() {
                api_panics += 1;
            }
            std::thread::yield_now();
        }
        api_panics
    });
    let panics = a.join().unwrap_or_default();
    let api_panics = b.join().unwrap_or(0);
    let _ = guarded(|| {
        let _ = prqlc::debug::log_finish();
        json!(null)
    });
    let after = outputs(req);
    json!({"before": before, "after": after, "panics_during": panics, "api_panics": api_panics})
}

// the `verif:namegen` / `verif:pq-names` lines (hooks 44c332e namegen-sites, d5c1b7e pq-names) of a finished debug log
fn name_lines(log: Option<prqlc::debug::DebugLog>) -> Vec<Value> {
    let mut out = vec![];
    if let Some(log) = log {
        if let Ok(Value::Object(m)) = serde_json::to_value(&log) {
            if let Some(Value::Array(es)) = m.get("entries") {
                for e in es {
                    if let Some(t) = e.get("kind").and_then(|k| k.get("Message")).and_then(|v| v.get("text")).and_then(|t| t.as_str()) {
                        if t.starts_with("verif:namegen ") || t.starts_with("verif:pq-names ") {
                            out.push(json!(t));
                        }
                    }
                }
            }
        }
    }
    out
}

fn compile_only(req: &Value) -> Value {
    let o = match options(req) {
        Ok(o) => o,
        Err(v) => return v,
    };
    guarded(|| match prqlc::compile(s(req, "src"), &o) {
        Ok(sql) => json!({ "ok": sql }),
        Err(e) => err_text(&e),
    })
}

// Generated-name state per call.
// {steps: [req..]}            : a history; every step compiled under its own debug log -> {steps: [{r, names: [line..]}]}
// {par: {n, m, reqs}}         : n threads at once under ONE log (thread i compiles reqs[i % len] m times); the lines of all
//                               calls come back as one list (the log is process-global: lines are not attributed to calls)
fn cmd_names(req: &Value) -> Value {
    let _ = guarded(|| {
        let _ = prqlc::debug::log_finish();
        json!(null)
    });
    if let Some(par) = req.get("par") {
        let n = par.get("n").and_then(|v| v.as_u64()).unwrap_or(16) as usize;
        let m = par.get("m").and_then(|v| v.as_u64()).unwrap_or(1) as usize;
        let reqs: Vec<Value> = par.get("reqs").and_then(|v| v.as_array()).cloned().unwrap_or_default();
        if reqs.is_empty() {
            return json!({"bad_request": "no reqs"});
        }
        prqlc::debug::log_start();
        let barrier = std::sync::Arc::new(std::sync::Barrier::new(n));
        let mut handles = vec![];
        for i in 0..n {
            let r = reqs[i % reqs.len()].clone();
            let b = barrier.clone();
            handles.push(big_stack_thread(move || {
                b.wait();
                let mut v = vec![];
                for _ in 0..m {
                    v.push(compile_only(&r));
                }
                v
            }));
        }
        let outs: Vec<Value> = handles
            .into_iter()
            .map(|h| match h.join() {
                Ok(v) => Value::Array(v),
                Err(_) => json!([{"panic": {"msg": "thread join failed"}}]),
            })
            .collect();
        let names = name_lines(prqlc::debug::log_finish());
        return json!({"outs": outs, "names": names});
    }
    let steps: Vec<Value> = req.get("steps").and_then(|v| v.as_array()).cloned().unwrap_or_default();
    let mut out = vec![];
    for st in steps {
        prqlc::debug::log_start();
        let r = compile_only(&st);
        let names = name_lines(prqlc::debug::log_finish());
        out.push(json!({"r": r, "names": names}));
    }
    json!({ "steps": out })
}

pub fn dispatch(cmd: &str, req: &Value) -> Option<Value> {
    match cmd {
        "c11_out" => Some(outputs(req)),
        "c11_rep" => Some(cmd_rep(req)),
        "c11_hist" => Some(cmd_hist(req)),
        "c11_par" => Some(cmd_par(req)),
        "c11_tree" => Some(cmd_tree(req)),
        "c11_log" => Some(cmd_log(req)),
        "c11_lograce" => Some(cmd_lograce(req)),
        "c11_names" => Some(cmd_names(req)),
        _ => None,
    }
}

// harness commands owned by property C02
#![allow(unused_imports, dead_code)]
use serde_json::{json, Value};

/// `c02_plsql {pl: <PL as a JSON value>, target?}`: PL (JSON) -> RQ -> SQL.  Lets the check present literals that
/// no source text denotes (Literal::Integer(i64::MIN): the lexer reads 9223372036854775808 as a float) to
/// static_eval and to the SQL emitter.
fn cmd_plsql(req: &Value) -> Value {
    let o = match crate::options(req) {
        Ok(o) => o,
        Err(v) => return v,
    };
    let j = match req.get("pl") {
        Some(v) => v.to_string(),
        None => return json!({"bad_request": "pl missing"}),
    };
    let r = prqlc::json::to_pl(&j)
        .and_then(prqlc::pl_to_rq)
        .and_then(|rq| prqlc::rq_to_sql(rq, &o));
    match r {
        Ok(sql) => json!({ "ok": sql }),
        Err(e) => crate::errs(e),
    }
}

pub fn dispatch(cmd: &str, req: &Value) -> Option<Value> {
    match cmd {
        "c02_plsql" => Some(cmd_plsql(req)),
        _ => None,
    }
}

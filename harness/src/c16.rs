// harness commands owned by property C16
#![allow(unused_imports, dead_code)]
use serde_json::{json, Value};

use crate::{errs, options, s};

// c16_rq {src}: source -> PL -> RQ, the RQ as JSON, and the same RQ after one trip through its JSON form
//   {ok: rq_json, rt: rq_json_after(to_rq . from_rq), rt_value_eq: bool} | {err: [...]}
fn cmd_c16_rq(req: &Value) -> Value {
    let rq = match prqlc::prql_to_pl(s(req, "src")).and_then(prqlc::pl_to_rq) {
        Ok(rq) => rq,
        Err(e) => return errs(e),
    };
    let j1 = match prqlc::json::from_rq(&rq) {
        Ok(j) => j,
        Err(e) => return json!({"ser_err": errs(e)}),
    };
    let v1 = serde_json::from_str::<Value>(&j1).unwrap_or(Value::Null);
    match prqlc::json::to_rq(&j1) {
        Err(e) => json!({"ok": v1, "rt_err": errs(e)}),
        Ok(rq2) => {
            let eq = rq2 == rq;
            match prqlc::json::from_rq(&rq2) {
                Ok(j2) => json!({"ok": v1, "rt": serde_json::from_str::<Value>(&j2).unwrap_or(Value::Null), "rt_value_eq": eq}),
                Err(e) => json!({"ok": v1, "rt_err": errs(e)}),
            }
        }
    }
}

// c16_rq2sql {rq: <json value>, target?}: RQ JSON -> RQ -> SQL (the staged API's second half)
fn cmd_c16_rq2sql(req: &Value) -> Value {
    let o = match options(req) {
        Ok(o) => o,
        Err(v) => return v,
    };
    let text = match req.get("rq") {
        Some(v) => v.to_string(),
        None => return json!({"bad_request": "rq missing"}),
    };
    match prqlc::json::to_rq(&text) {
        Err(e) => json!({"de_err": errs(e)}),
        Ok(rq) => match prqlc::rq_to_sql(rq, &o) {
            Ok(sql) => json!({ "ok": sql }),
            Err(e) => errs(e),
        },
    }
}

// c16_trace {src}: source -> PL -> RQ with the compiler's debug log on; returns the RQ as JSON together with the lines that
// hook `lowerer-op-trace` (cfg prqlc_verif, semantic/lowering.rs) logged as `verif:lowerer_op {"op":..,"d":..}`, in order:
//   {ok: rq_json, ops: [{op, d}, ..], toposort: [{dependencies, main, order}]} | {err: [...], ops: [...], toposort: [...]}
// A panic propagates to main's guard (the log it leaves behind is discarded by the next log_start).
fn cmd_c16_trace(req: &Value) -> Value {
    const PREFIX: &str = "verif:lowerer_op ";
    let _ = prqlc::debug::log_finish();
    prqlc::debug::log_start();
    let r = prqlc::prql_to_pl(s(req, "src")).and_then(prqlc::pl_to_rq);
    let log = prqlc::debug::log_finish();
    let mut ops: Vec<Value> = vec![];
    let mut topo: Vec<Value> = vec![];
    let mut bad: Vec<String> = vec![];
    if let Some(log) = log {
        if let Ok(Value::Object(m)) = serde_json::to_value(&log) {
            if let Some(Value::Array(es)) = m.get("entries") {
                for e in es {
                    if let Some(text) = e.get("kind").and_then(|k| k.get("Message")).and_then(|v| v.get("text")).and_then(|t| t.as_str()) {
                        if let Some(rest) = text.strip_prefix(PREFIX) {
                            match serde_json::from_str::<Value>(rest) {
                                Ok(v) => ops.push(v),
                                Err(e) => bad.push(format!("{e}: {rest}")),
                            }
                        } else if let Some(rest) = text.strip_prefix("verif:toposort_tables ") {
                            // hooks/toposort-tables.diff: input and output of toposort_tables
                            match serde_json::from_str::<Value>(rest) {
                                Ok(v) => topo.push(v),
                                Err(e) => bad.push(format!("{e}: {rest}")),
                            }
                        }
                    }
                }
            }
        }
    }
    let mut out = match r {
        Ok(rq) => match prqlc::json::from_rq(&rq) {
            Ok(j) => json!({"ok": serde_json::from_str::<Value>(&j).unwrap_or(Value::Null)}),
            Err(e) => json!({"ser_err": errs(e)}),
        },
        Err(e) => errs(e),
    };
    out["ops"] = json!(ops);
    out["toposort"] = json!(topo);
    if !bad.is_empty() {
        out["bad_ops"] = json!(bad);
    }
    out
}

pub fn dispatch(cmd: &str, req: &Value) -> Option<Value> {
    match cmd {
        "c16_rq" => Some(cmd_c16_rq(req)),
        "c16_rq2sql" => Some(cmd_c16_rq2sql(req)),
        "c16_trace" => Some(cmd_c16_trace(req)),
        _ => None,
    }
}

// harness commands owned by property C04
#![allow(unused_imports, dead_code)]
use serde_json::{json, Value};

pub fn dispatch(_cmd: &str, _req: &Value) -> Option<Value> {
    None
}

// harness commands owned by property C14 (formatting preserves the program and is idempotent)
#![allow(unused_imports, dead_code)]
use std::str::FromStr;

use serde_json::{json, Value};

use crate::{errs, s};

fn pl_json(src: &str) -> Result<(prqlc::pr::ModuleDef, Value), Value> {
    match prqlc::prql_to_pl(src) {
        Ok(pl) => match prqlc::json::from_pl(&pl) {
            Ok(j) => Ok((pl, serde_json::from_str::<Value>(&j).unwrap_or(Value::Null))),
            Err(e) => Err(errs(e)),
        },
        Err(e) => Err(errs(e)),
    }
}

fn compile_to(src: &str, target: &str) -> Value {
    // a panic while compiling (C12's business) must not hide the formatter's answers: keep its location only
    let r = crate::guarded(|| compile_to_inner(src, target));
    if let Some(p) = r.get("panic") {
        return json!({"panic": p.get("loc").cloned().unwrap_or(Value::Null)});
    }
    r
}

fn compile_to_inner(src: &str, target: &str) -> Value {
    let o = prqlc::Options::default()
        .with_format(false)
        .with_signature_comment(false)
        .with_color(false);
    let o = match prqlc::Target::from_str(target) {
        Ok(t) => o.with_target(t),
        Err(e) => return json!({"err_target": format!("{:?}", e.reason)}),
    };
    match prqlc::compile(src, &o) {
        Ok(sql) => json!({ "ok": sql }),
        Err(e) => {
            // only the reasons: spans legitimately move when the source is re-formatted
            let v: Vec<Value> = e.inner.iter().map(|m| json!(m.reason)).collect();
            json!({ "err": v })
        }
    }
}

/// `c14 {src, targets:[..], compile:bool}`: everything the direct oracle needs about one source, in one call:
///   pl   = json(prql_to_pl(src))                      (or err)
///   fmt  = pl_to_prql(prql_to_pl(src))                (or fmt_err)
///   pl2  = json(prql_to_pl(fmt))                      (or err: the formatter's output does not parse)
///   fmt2 = pl_to_prql(prql_to_pl(fmt))
///   sql / sql2 = compile(src) / compile(fmt) per target
fn cmd_c14(req: &Value) -> Value {
    let src = s(req, "src");
    let (pl, plj) = match pl_json(src) {
        Ok(x) => x,
        Err(e) => return json!({ "parse_err": e }),
    };
    let mut out = json!({ "pl": plj });
    let fmt = match prqlc::pl_to_prql(&pl) {
        Ok(t) => t,
        Err(e) => {
            out["fmt_err"] = errs(e);
            return out;
        }
    };
    out["fmt"] = json!(fmt);
    match pl_json(&fmt) {
        Ok((pl2, plj2)) => {
            out["pl2"] = plj2;
            match prqlc::pl_to_prql(&pl2) {
                Ok(t) => out["fmt2"] = json!(t),
                Err(e) => out["fmt2_err"] = errs(e),
            }
        }
        Err(e) => out["pl2_err"] = e,
    }
    if req.get("compile").and_then(|v| v.as_bool()).unwrap_or(true) {
        let mut a = serde_json::Map::new();
        let mut b = serde_json::Map::new();
        let mut nondet: Vec<Value> = Vec::new();
        if let Some(ts) = req.get("targets").and_then(|v| v.as_array()) {
            for t in ts {
                if let Some(t) = t.as_str() {
                    let x = compile_to(src, t);
                    let y = compile_to(&fmt, t);
                    if x != y {
                        // the compiler itself is not a function of the AST (hash-ordered maps: C11's subject):
                        // the two sources agree if their *sets* of observed outputs meet
                        let mut xs = vec![x.clone()];
                        let mut ys = vec![y.clone()];
                        let mut met = false;
                        for _ in 0..12 {
                            xs.push(compile_to(src, t));
                            ys.push(compile_to(&fmt, t));
                            if xs.iter().any(|v| ys.contains(v)) {
                                met = true;
                                break;
                            }
                        }
                        if met {
                            nondet.push(json!(t));
                        }
                    }
                    a.insert(t.to_string(), x);
                    b.insert(t.to_string(), y);
                }
            }
        }
        out["sql"] = Value::Object(a);
        out["sql2"] = Value::Object(b);
        out["sql_nondet"] = Value::Array(nondet);
    }
    out
}

/// `c14lit {src}`: the token kinds of a source (no spans): used to see what a printed literal / identifier lexes back to.
fn cmd_c14lex(req: &Value) -> Value {
    match prqlc::prql_to_tokens(s(req, "src")) {
        Ok(t) => {
            let v: Vec<Value> = t
                .0
                .iter()
                .map(|t| serde_json::to_value(&t.kind).unwrap_or(Value::Null))
                .collect();
            json!({ "ok": v })
        }
        Err(e) => {
            let v: Vec<Value> = e.inner.iter().map(|m| json!(m.reason)).collect();
            json!({ "err": v })
        }
    }
}

/// `c14display {kind, ...}`: Display of one Literal built directly (no parser involved).
fn cmd_c14display(req: &Value) -> Value {
    use prqlc::lr::Literal;
    let lit = match s(req, "kind") {
        "string" => Literal::String(s(req, "s").to_string()),
        "raw" => Literal::RawString(s(req, "s").to_string()),
        "int" => Literal::Integer(req.get("i").and_then(|v| v.as_i64()).unwrap_or(0)),
        "float" => {
            let f = match req.get("bits").and_then(|v| v.as_u64()) {
                Some(b) => f64::from_bits(b),
                None => s(req, "f").parse::<f64>().unwrap_or(0.0),
            };
            Literal::Float(f)
        }
        "bool" => Literal::Boolean(req.get("b").and_then(|v| v.as_bool()).unwrap_or(false)),
        "null" => Literal::Null,
        "date" => Literal::Date(s(req, "s").to_string()),
        "time" => Literal::Time(s(req, "s").to_string()),
        "timestamp" => Literal::Timestamp(s(req, "s").to_string()),
        "unit" => Literal::ValueAndUnit(prqlc::lr::ValueAndUnit {
            n: req.get("i").and_then(|v| v.as_i64()).unwrap_or(0),
            unit: s(req, "s").to_string(),
        }),
        _ => return json!({"bad_kind": s(req, "kind")}),
    };
    let text = lit.to_string();
    let mut out = json!({ "text": text });
    // what the text lexes back to
    match prqlc::prql_to_tokens(&text) {
        Ok(t) => {
            let v: Vec<Value> = t
                .0
                .iter()
                .map(|t| serde_json::to_value(&t.kind).unwrap_or(Value::Null))
                .collect();
            out["lex"] = json!(v);
        }
        Err(e) => {
            let v: Vec<Value> = e.inner.iter().map(|m| json!(m.reason)).collect();
            out["lex_err"] = json!(v);
        }
    }
    out
}

pub fn dispatch(cmd: &str, req: &Value) -> Option<Value> {
    match cmd {
        "c14" => Some(cmd_c14(req)),
        "c14lex" => Some(cmd_c14lex(req)),
        "c14display" => Some(cmd_c14display(req)),
        _ => None,
    }
}

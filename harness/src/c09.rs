// harness commands owned by property C09
//   c09_kw {}                 -> keyword lists that live outside /repo's text: sqlparser's
//                                RESERVED_FOR_COLUMN_ALIAS / RESERVED_FOR_TABLE_ALIAS (as keywords.rs maps
//                                them to strings) and the bundled SQLite's own keyword table
//                                (sqlite3_keyword_count / sqlite3_keyword_name)
//   c09_ident {s, quote}      -> sqlparser Display of Ident::new(s) and Ident::with_quote(quote, s)
#![allow(unused_imports, dead_code)]
use serde_json::{json, Value};

fn sqlite_keywords() -> Vec<String> {
    let mut out = vec![];
    unsafe {
        let n = rusqlite::ffi::sqlite3_keyword_count();
        for i in 0..n {
            let mut p: *const std::os::raw::c_char = std::ptr::null();
            let mut len: std::os::raw::c_int = 0;
            if rusqlite::ffi::sqlite3_keyword_name(i, &mut p, &mut len) == 0 && !p.is_null() {
                let bytes = std::slice::from_raw_parts(p as *const u8, len as usize);
                out.push(String::from_utf8_lossy(bytes).to_string());
            }
        }
    }
    out
}

fn kw() -> Value {
    use sqlparser::keywords::{ALL_KEYWORDS, ALL_KEYWORDS_INDEX, RESERVED_FOR_COLUMN_ALIAS, RESERVED_FOR_TABLE_ALIAS};
    let name = |k: &sqlparser::keywords::Keyword| -> String {
        ALL_KEYWORDS_INDEX
            .iter()
            .position(|x| x == k)
            .map(|i| ALL_KEYWORDS[i].to_string())
            .unwrap_or_default()
    };
    let col: Vec<String> = RESERVED_FOR_COLUMN_ALIAS.iter().map(name).collect();
    let tab: Vec<String> = RESERVED_FOR_TABLE_ALIAS.iter().map(name).collect();
    json!({"column_alias": col, "table_alias": tab, "sqlite": sqlite_keywords(),
           "sqlite_version": rusqlite::version()})
}

fn ident(req: &Value) -> Value {
    let text = crate::s(req, "s").to_string();
    let q = crate::s(req, "quote").chars().next().unwrap_or('"');
    json!({"bare": sqlparser::ast::Ident::new(text.clone()).to_string(),
           "quoted": sqlparser::ast::Ident::with_quote(q, text).to_string()})
}

pub fn dispatch(cmd: &str, req: &Value) -> Option<Value> {
    match cmd {
        "c09_kw" => Some(kw()),
        "c09_ident" => Some(ident(req)),
        _ => None,
    }
}

// harness commands owned by property C05
#![allow(unused_imports, dead_code)]
use serde_json::{json, Value};
use sqlparser::ast::*;
use std::collections::HashMap;

// `sqlcols {sql, dialect, schema: {table: [col, ..]}}` -> {"cols": [name|null, ..]} | {"err": ..}
// The column names a SQL engine reports for the (single) query, with every `*` / `tbl.*`
// [EXCLUDE (..) | EXCEPT (..)] expanded against the given base-table schemas, CTEs and derived
// tables -- the result-set columns of dialects we cannot execute here (duckdb, bigquery, snowflake).
// Only the SQL shapes prqlc emits are covered; anything else is an explicit error, never a guess.
type Cols = Vec<Option<String>>;
type Env = HashMap<String, Cols>;

fn last_ident(o: &ObjectName) -> String {
    o.0.last()
        .map(|p| p.as_ident().map(|i| i.value.clone()).unwrap_or_else(|| p.to_string()))
        .unwrap_or_default()
}

fn excluded(o: &WildcardAdditionalOptions) -> Result<Vec<String>, String> {
    if o.opt_replace.is_some() || o.opt_rename.is_some() || o.opt_ilike.is_some() {
        return Err("wildcard REPLACE/RENAME/ILIKE not covered".into());
    }
    let mut out = vec![];
    match &o.opt_exclude {
        Some(ExcludeSelectItem::Single(i)) => out.push(i.value.clone()),
        Some(ExcludeSelectItem::Multiple(v)) => out.extend(v.iter().map(|i| i.value.clone())),
        None => {}
    }
    if let Some(e) = &o.opt_except {
        out.push(e.first_element.value.clone());
        out.extend(e.additional_elements.iter().map(|i| i.value.clone()));
    }
    Ok(out)
}

fn minus(cols: &Cols, ex: &[String]) -> Cols {
    cols.iter()
        .filter(|c| match c {
            Some(n) => !ex.iter().any(|e| e.eq_ignore_ascii_case(n)),
            None => true,
        })
        .cloned()
        .collect()
}

fn apply_alias(cols: Cols, alias: &Option<TableAlias>) -> Cols {
    match alias {
        Some(a) if !a.columns.is_empty() => {
            let mut c = cols;
            for (i, d) in a.columns.iter().enumerate() {
                if i < c.len() {
                    c[i] = Some(d.name.value.clone());
                }
            }
            c
        }
        _ => cols,
    }
}

fn factor(f: &TableFactor, env: &Env) -> Result<(String, Cols), String> {
    match f {
        TableFactor::Table { name, alias, args: None, .. } => {
            let n = last_ident(name);
            let cols = env.get(&n).cloned().ok_or_else(|| format!("unknown relation {n}"))?;
            let label = alias.as_ref().map(|a| a.name.value.clone()).unwrap_or(n);
            Ok((label, apply_alias(cols, alias)))
        }
        TableFactor::Derived { subquery, alias, .. } => {
            let cols = query(subquery, env)?;
            let label = alias.as_ref().map(|a| a.name.value.clone()).unwrap_or_default();
            Ok((label, apply_alias(cols, alias)))
        }
        other => Err(format!("table factor not covered: {other}")),
    }
}

fn select(s: &Select, env: &Env) -> Result<Cols, String> {
    let mut frame: Vec<(String, Cols)> = vec![];
    for twj in &s.from {
        frame.push(factor(&twj.relation, env)?);
        for j in &twj.joins {
            frame.push(factor(&j.relation, env)?);
        }
    }
    let mut out: Cols = vec![];
    for it in &s.projection {
        match it {
            SelectItem::UnnamedExpr(Expr::Identifier(i)) => out.push(Some(i.value.clone())),
            SelectItem::UnnamedExpr(Expr::CompoundIdentifier(v)) => out.push(v.last().map(|i| i.value.clone())),
            SelectItem::UnnamedExpr(_) => out.push(None),
            SelectItem::ExprWithAlias { alias, .. } => out.push(Some(alias.value.clone())),
            SelectItem::Wildcard(o) => {
                let ex = excluded(o)?;
                for (_, c) in &frame {
                    out.extend(minus(c, &ex));
                }
            }
            SelectItem::QualifiedWildcard(SelectItemQualifiedWildcardKind::ObjectName(n), o) => {
                let ex = excluded(o)?;
                let l = last_ident(n);
                let (_, c) = frame.iter().find(|(lab, _)| *lab == l).ok_or_else(|| format!("{l}.* names no relation of the FROM clause"))?;
                out.extend(minus(c, &ex));
            }
            SelectItem::QualifiedWildcard(..) => return Err("expression wildcard not covered".into()),
        }
    }
    Ok(out)
}

fn setexpr(b: &SetExpr, env: &Env) -> Result<Cols, String> {
    match b {
        SetExpr::Select(s) => select(s, env),
        SetExpr::Query(q) => query(q, env),
        SetExpr::SetOperation { left, .. } => setexpr(left, env),
        other => Err(format!("query body not covered: {other}")),
    }
}

fn query(q: &Query, env: &Env) -> Result<Cols, String> {
    let mut env2 = env.clone();
    if let Some(w) = &q.with {
        for cte in &w.cte_tables {
            // a recursive CTE may name itself: its columns are those of its first (non-recursive) branch
            let c = query(&cte.query, &env2)?;
            let alias = Some(cte.alias.clone());
            env2.insert(cte.alias.name.value.clone(), apply_alias(c, &alias));
        }
    }
    setexpr(&q.body, &env2)
}

fn cmd_sqlcols(req: &Value) -> Value {
    let d = crate::sp_dialect(crate::s(req, "dialect"));
    let stmts = match sqlparser::parser::Parser::parse_sql(&*d, crate::s(req, "sql")) {
        Ok(s) => s,
        Err(e) => return json!({"parse_err": e.to_string()}),
    };
    let mut env: Env = HashMap::new();
    if let Some(o) = req.get("schema").and_then(|v| v.as_object()) {
        for (t, cs) in o {
            let cols = cs.as_array().map(|a| a.iter().map(|c| c.as_str().map(|x| x.to_string())).collect()).unwrap_or_default();
            env.insert(t.clone(), cols);
        }
    }
    match stmts.as_slice() {
        [Statement::Query(q)] => match query(q, &env) {
            Ok(c) => json!({ "cols": c }),
            Err(e) => json!({ "err": e }),
        },
        _ => json!({"err": "not a single query"}),
    }
}

// `c05_hooks {src, target, prefixes: [..]}`: main's `log` with msg_prefix "verif:", keeping only the messages whose text
// starts with one of the given prefixes (one compile serves several hook streams without shipping every hook line to python)
fn cmd_hooks(req: &Value) -> Value {
    let mut r2 = req.clone();
    r2["msg_prefix"] = json!("verif:");
    r2["want"] = json!([]);
    let mut out = crate::cmd_log(&r2);
    let prefixes: Vec<String> = req
        .get("prefixes")
        .and_then(|p| p.as_array())
        .map(|a| a.iter().filter_map(|x| x.as_str().map(String::from)).collect())
        .unwrap_or_default();
    if let Some(entries) = out.get_mut("entries").and_then(|e| e.as_array_mut()) {
        entries.retain(|e| {
            e.get("Message")
                .and_then(|m| m.as_str())
                .map(|m| prefixes.iter().any(|p| m.starts_with(p.as_str())))
                .unwrap_or(false)
        });
    }
    out
}

pub fn dispatch(cmd: &str, req: &Value) -> Option<Value> {
    match cmd {
        "sqlcols" => Some(cmd_sqlcols(req)),
        "c05_hooks" => Some(cmd_hooks(req)),
        _ => None,
    }
}

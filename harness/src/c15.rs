// harness commands owned by property C15 (staged compilation through JSON equals one-shot compile)
#![allow(unused_imports, dead_code)]
use serde_json::{json, Value};

use crate::{errs, guarded, options, s};

// source -> PL -> JSON -> PL -> RQ -> JSON -> RQ -> SQL, reporting the stage that failed
fn staged(req: &Value, o: &prqlc::Options) -> Value {
    let pl = match prqlc::prql_to_pl(s(req, "src")) {
        Ok(x) => x,
        Err(e) => return json!({"stage": "prql_to_pl", "r": errs(e)}),
    };
    let j = match prqlc::json::from_pl(&pl) {
        Ok(x) => x,
        Err(e) => return json!({"stage": "from_pl", "r": errs(e)}),
    };
    let pl2 = match prqlc::json::to_pl(&j) {
        Ok(x) => x,
        Err(e) => return json!({"stage": "to_pl", "r": errs(e)}),
    };
    let rq = match prqlc::pl_to_rq(pl2) {
        Ok(x) => x,
        Err(e) => return json!({"stage": "pl_to_rq", "r": errs(e)}),
    };
    let j = match prqlc::json::from_rq(&rq) {
        Ok(x) => x,
        Err(e) => return json!({"stage": "from_rq", "r": errs(e)}),
    };
    let rq2 = match prqlc::json::to_rq(&j) {
        Ok(x) => x,
        Err(e) => return json!({"stage": "to_rq", "r": errs(e)}),
    };
    match prqlc::rq_to_sql(rq2, o) {
        Ok(sql) => json!({"stage": "done", "r": {"ok": sql}}),
        Err(e) => json!({"stage": "rq_to_sql", "r": errs(e)}),
    }
}

// {src, target?, format?, sig?} -> {"direct": compile result, "staged": {"stage":..,"r": result}}
fn cmd_both(req: &Value) -> Value {
    let o = match options(req) {
        Ok(o) => o,
        Err(v) => return v,
    };
    let direct = guarded(|| match prqlc::compile(s(req, "src"), &o) {
        Ok(sql) => json!({ "ok": sql }),
        Err(e) => errs(e),
    });
    let st = guarded(|| staged(req, &o));
    json!({"direct": direct, "staged": st})
}

// the implementation's own JSON *text* of PL and RQ (key order and number text as serde_json wrote them),
// plus the verdicts of the Rust-side round trip
fn cmd_json(req: &Value) -> Value {
    let mut out = serde_json::Map::new();
    let pl = match prqlc::prql_to_pl(s(req, "src")) {
        Ok(x) => x,
        Err(e) => return errs(e),
    };
    match prqlc::json::from_pl(&pl) {
        Ok(j) => {
            match prqlc::json::to_pl(&j) {
                Ok(pl2) => {
                    out.insert("pl_eq".into(), json!(pl2 == pl));
                    out.insert("pl_text_eq".into(), json!(prqlc::json::from_pl(&pl2).ok().as_deref() == Some(j.as_str())));
                }
                Err(e) => {
                    out.insert("pl_de_err".into(), errs(e));
                }
            }
            out.insert("pl".into(), json!(j));
        }
        Err(e) => {
            out.insert("pl_ser_err".into(), errs(e));
        }
    }
    match prqlc::pl_to_rq(pl) {
        Ok(rq) => match prqlc::json::from_rq(&rq) {
            Ok(j) => {
                match prqlc::json::to_rq(&j) {
                    Ok(rq2) => {
                        out.insert("rq_eq".into(), json!(rq2 == rq));
                        out.insert("rq_text_eq".into(), json!(prqlc::json::from_rq(&rq2).ok().as_deref() == Some(j.as_str())));
                    }
                    Err(e) => {
                        out.insert("rq_de_err".into(), errs(e));
                    }
                }
                out.insert("rq".into(), json!(j));
            }
            Err(e) => {
                out.insert("rq_ser_err".into(), errs(e));
            }
        },
        Err(e) => {
            out.insert("rq_err".into(), errs(e));
        }
    }
    Value::Object(out)
}

// {kind: "pl"|"rq", json: text} -> real serde: deserialise, serialise again -> {"ok": text} | {"de_err": msg}
fn cmd_reser(req: &Value) -> Value {
    let text = s(req, "json");
    match s(req, "kind") {
        "pl" => match prqlc::json::to_pl(text) {
            Ok(x) => match prqlc::json::from_pl(&x) {
                Ok(j) => {
                    let again = prqlc::json::to_pl(&j).map(|y| y == x).unwrap_or(false);
                    json!({"ok": j, "value_eq_after_second_trip": again})
                }
                Err(e) => json!({"ser_err": errs(e)}),
            },
            Err(e) => json!({"de_err": e.inner.first().map(|m| m.reason.clone()).unwrap_or_default()}),
        },
        "rq" => match prqlc::json::to_rq(text) {
            Ok(x) => match prqlc::json::from_rq(&x) {
                Ok(j) => {
                    let again = prqlc::json::to_rq(&j).map(|y| y == x).unwrap_or(false);
                    json!({"ok": j, "value_eq_after_second_trip": again})
                }
                Err(e) => json!({"ser_err": errs(e)}),
            },
            Err(e) => json!({"de_err": e.inner.first().map(|m| m.reason.clone()).unwrap_or_default()}),
        },
        k => json!({"bad_kind": k}),
    }
}

pub fn dispatch(cmd: &str, req: &Value) -> Option<Value> {
    match cmd {
        "c15_both" => Some(cmd_both(req)),
        "c15_json" => Some(cmd_json(req)),
        "c15_reser" => Some(cmd_reser(req)),
        _ => None,
    }
}

// Correspondence / oracle harness for the prql verification framework.
// One process = one batch: JSON requests, one per line on stdin; one JSON answer per line on stdout.
// usage: vharness <command>
// Every request runs under catch_unwind; a panic is reported as {"panic":{"msg":..,"loc":..}}.
use std::io::{BufRead, Write};
use std::panic::{catch_unwind, AssertUnwindSafe};
use std::str::FromStr;
use std::sync::Mutex;

use serde_json::{json, Value};

// per-property extensions: each file owns its commands (pub fn dispatch(cmd, req) -> Option<Value>)
mod c01;
mod c02;
mod c03;
mod c04;
mod c05;
mod c06;
mod c07;
mod c08;
mod c09;
mod c10;
mod c11;
mod c12;
mod c13;
mod c14;
mod c15;
mod c16;
mod c17;
mod c18;

static LAST_PANIC: Mutex<Option<(String, String)>> = Mutex::new(None);

fn install_hook() {
    std::panic::set_hook(Box::new(|info| {
        let msg = if let Some(s) = info.payload().downcast_ref::<&str>() {
            s.to_string()
        } else if let Some(s) = info.payload().downcast_ref::<String>() {
            s.clone()
        } else {
            "<non-string panic payload>".to_string()
        };
        let loc = info
            .location()
            .map(|l| format!("{}:{}", l.file(), l.line()))
            .unwrap_or_default();
        if let Ok(mut g) = LAST_PANIC.lock() {
            *g = Some((msg, loc));
        }
    }));
}

pub(crate) fn guarded<F: FnOnce() -> Value>(f: F) -> Value {
    match catch_unwind(AssertUnwindSafe(f)) {
        Ok(v) => v,
        Err(_) => {
            let p = LAST_PANIC.lock().ok().and_then(|mut g| g.take());
            let (msg, loc) = p.unwrap_or_default();
            json!({"panic": {"msg": msg, "loc": loc}})
        }
    }
}

pub(crate) fn errs(e: prqlc::ErrorMessages) -> Value {
    let v: Vec<Value> = e
        .inner
        .iter()
        .map(|m| {
            json!({
                "kind": format!("{:?}", m.kind),
                "code": m.code,
                "reason": m.reason,
                "hints": m.hints,
                "span": m.span.map(|s| json!({"start": s.start, "end": s.end, "source_id": s.source_id})),
                "display": m.display,
                "location": m.location.as_ref().map(|l| json!({"start": [l.start.0, l.start.1], "end": [l.end.0, l.end.1]})),
            })
        })
        .collect();
    json!({ "err": v })
}

pub(crate) fn s<'a>(req: &'a Value, k: &str) -> &'a str {
    req.get(k).and_then(|v| v.as_str()).unwrap_or("")
}

pub(crate) fn options(req: &Value) -> Result<prqlc::Options, Value> {
    let mut o = prqlc::Options::default()
        .with_format(req.get("format").and_then(|v| v.as_bool()).unwrap_or(false))
        .with_signature_comment(req.get("sig").and_then(|v| v.as_bool()).unwrap_or(false))
        .with_color(false);
    match req.get("target") {
        None | Some(Value::Null) => {}
        Some(Value::String(t)) => match prqlc::Target::from_str(t) {
            Ok(t) => o = o.with_target(t),
            Err(e) => return Err(json!({"err_target": format!("{:?}", e.reason)})),
        },
        Some(_) => return Err(json!({"err_target": "bad request"})),
    }
    Ok(o)
}

pub(crate) fn cmd_compile(req: &Value) -> Value {
    let o = match options(req) {
        Ok(o) => o,
        Err(v) => return v,
    };
    match prqlc::compile(s(req, "src"), &o) {
        Ok(sql) => json!({ "ok": sql }),
        Err(e) => errs(e),
    }
}

pub(crate) fn cmd_lex(req: &Value) -> Value {
    match prqlc::prql_to_tokens(s(req, "src")) {
        Ok(t) => json!({"ok": serde_json::to_value(&t).unwrap_or(Value::Null)}),
        Err(e) => errs(e),
    }
}

pub(crate) fn cmd_pl(req: &Value) -> Value {
    match prqlc::prql_to_pl(s(req, "src")) {
        Ok(pl) => match prqlc::json::from_pl(&pl) {
            Ok(j) => json!({"ok": serde_json::from_str::<Value>(&j).unwrap_or(Value::Null)}),
            Err(e) => errs(e),
        },
        Err(e) => errs(e),
    }
}

pub(crate) fn cmd_fmt(req: &Value) -> Value {
    match prqlc::prql_to_pl(s(req, "src")) {
        Ok(pl) => match prqlc::pl_to_prql(&pl) {
            Ok(t) => json!({ "ok": t }),
            Err(e) => json!({"fmt_err": errs(e)}),
        },
        Err(e) => errs(e),
    }
}

pub(crate) fn cmd_rq(req: &Value) -> Value {
    match prqlc::prql_to_pl(s(req, "src")).and_then(prqlc::pl_to_rq) {
        Ok(rq) => match prqlc::json::from_rq(&rq) {
            Ok(j) => json!({"ok": serde_json::from_str::<Value>(&j).unwrap_or(Value::Null)}),
            Err(e) => errs(e),
        },
        Err(e) => errs(e),
    }
}

// source -> PL -> JSON -> PL -> RQ -> JSON -> RQ -> SQL
fn cmd_staged(req: &Value) -> Value {
    let o = match options(req) {
        Ok(o) => o,
        Err(v) => return v,
    };
    let r = prqlc::prql_to_pl(s(req, "src"))
        .and_then(|pl| prqlc::json::from_pl(&pl))
        .and_then(|j| prqlc::json::to_pl(&j))
        .and_then(prqlc::pl_to_rq)
        .and_then(|rq| prqlc::json::from_rq(&rq))
        .and_then(|j| prqlc::json::to_rq(&j))
        .and_then(|rq| prqlc::rq_to_sql(rq, &o));
    match r {
        Ok(sql) => json!({ "ok": sql }),
        Err(e) => errs(e),
    }
}

// JSON round trips of PL and RQ: value equality after to_json . from_json, and json-tree equality.
fn cmd_jsonrt(req: &Value) -> Value {
    let mut out = serde_json::Map::new();
    match prqlc::prql_to_pl(s(req, "src")) {
        Err(e) => return errs(e),
        Ok(pl) => {
            let j1 = match prqlc::json::from_pl(&pl) {
                Ok(j) => j,
                Err(e) => return json!({"pl_ser_err": errs(e)}),
            };
            match prqlc::json::to_pl(&j1) {
                Err(e) => {
                    out.insert("pl_de_err".into(), errs(e));
                }
                Ok(pl2) => {
                    out.insert("pl_eq".into(), json!(pl2 == pl));
                    let j2 = prqlc::json::from_pl(&pl2).unwrap_or_default();
                    out.insert("pl_json_eq".into(), json!(j1 == j2));
                }
            }
            match prqlc::pl_to_rq(pl) {
                Err(e) => {
                    out.insert("rq_err".into(), errs(e));
                }
                Ok(rq) => {
                    let j1 = match prqlc::json::from_rq(&rq) {
                        Ok(j) => j,
                        Err(e) => return json!({"rq_ser_err": errs(e)}),
                    };
                    match prqlc::json::to_rq(&j1) {
                        Err(e) => {
                            out.insert("rq_de_err".into(), errs(e));
                        }
                        Ok(rq2) => {
                            out.insert("rq_eq".into(), json!(rq2 == rq));
                            let j2 = prqlc::json::from_rq(&rq2).unwrap_or_default();
                            out.insert("rq_json_eq".into(), json!(j1 == j2));
                        }
                    }
                }
            }
        }
    }
    Value::Object(out)
}

// All intermediate representations of one compile, through the public debug log.
pub(crate) fn cmd_log(req: &Value) -> Value {
    let o = match options(req) {
        Ok(o) => o,
        Err(v) => return v,
    };
    let want: Vec<String> = req
        .get("want")
        .and_then(|v| v.as_array())
        .map(|a| a.iter().filter_map(|x| x.as_str().map(|s| s.to_string())).collect())
        .unwrap_or_else(|| vec!["ReprRq".into(), "ReprPqEarly".into(), "ReprPq".into(), "ReprSql".into()]);
    // make sure a previous panic did not leave a log behind
    let _ = prqlc::debug::log_finish();
    prqlc::debug::log_start();
    let r = catch_unwind(AssertUnwindSafe(|| prqlc::compile(s(req, "src"), &o)));
    let log = prqlc::debug::log_finish();
    let mut entries = vec![];
    if let Some(log) = log {
        if let Ok(Value::Object(m)) = serde_json::to_value(&log) {
            if let Some(Value::Array(es)) = m.get("entries") {
                for e in es {
                    if let Some(Value::Object(k)) = e.get("kind") {
                        for (name, v) in k {
                            if name == "Message" {
                                // compiler log lines; only those with the requested prefix (e.g. "verif:")
                                if let Some(prefix) = req.get("msg_prefix").and_then(|p| p.as_str()) {
                                    let text = v.get("text").and_then(|t| t.as_str()).unwrap_or("");
                                    if text.starts_with(prefix) {
                                        entries.push(json!({ "Message": text }));
                                    }
                                }
                                continue;
                            }
                            if want.iter().any(|w| w == name) {
                                entries.push(json!({ name.clone(): v.clone() }));
                            }
                        }
                    }
                }
            }
        }
    }
    match r {
        Ok(Ok(sql)) => json!({"ok": sql, "entries": entries}),
        Ok(Err(e)) => {
            let mut v = errs(e);
            v["entries"] = json!(entries);
            v
        }
        Err(_) => {
            let p = LAST_PANIC.lock().ok().and_then(|mut g| g.take());
            let (msg, loc) = p.unwrap_or_default();
            json!({"panic": {"msg": msg, "loc": loc}, "entries": entries})
        }
    }
}

pub(crate) fn sqlite_val(v: rusqlite::types::ValueRef) -> Value {
    use rusqlite::types::ValueRef::*;
    match v {
        Null => Value::Null,
        Integer(i) => json!(i),
        Real(f) => json!({"f": format!("{:?}", f)}),
        Text(t) => json!(String::from_utf8_lossy(t)),
        Blob(b) => json!({"b": b.iter().map(|x| format!("{:02x}", x)).collect::<String>()}),
    }
}

pub(crate) fn cmd_exec(req: &Value) -> Value {
    let conn = match rusqlite::Connection::open_in_memory() {
        Ok(c) => c,
        Err(e) => return json!({"setup_err": e.to_string()}),
    };
    if let Some(Value::Array(setup)) = req.get("setup") {
        for st in setup {
            if let Some(t) = st.as_str() {
                if let Err(e) = conn.execute_batch(t) {
                    return json!({"setup_err": e.to_string(), "stmt": t});
                }
            }
        }
    }
    let sqls: Vec<String> = match req.get("sqls") {
        Some(Value::Array(a)) => a.iter().filter_map(|x| x.as_str().map(|s| s.to_string())).collect(),
        _ => vec![s(req, "sql").to_string()],
    };
    let mut results = vec![];
    for sql in &sqls {
        let r = (|| -> Result<Value, rusqlite::Error> {
            let mut stmt = conn.prepare(sql)?;
            let cols: Vec<String> = stmt.column_names().iter().map(|c| c.to_string()).collect();
            let n = cols.len();
            let mut rows = stmt.query([])?;
            let mut out = vec![];
            while let Some(r) = rows.next()? {
                let mut row = vec![];
                for i in 0..n {
                    row.push(sqlite_val(r.get_ref(i)?));
                }
                out.push(Value::Array(row));
                if out.len() > 10000 {
                    break;
                }
            }
            Ok(json!({"cols": cols, "rows": out}))
        })();
        results.push(match r {
            Ok(v) => v,
            Err(e) => json!({"exec_err": e.to_string()}),
        });
    }
    if req.get("sqls").is_some() {
        json!({ "results": results })
    } else {
        results.pop().unwrap_or(Value::Null)
    }
}

pub(crate) fn sp_dialect(name: &str) -> Box<dyn sqlparser::dialect::Dialect> {
    use sqlparser::dialect::*;
    match name {
        "ansi" => Box::new(AnsiDialect {}),
        "bigquery" => Box::new(BigQueryDialect {}),
        "clickhouse" => Box::new(ClickHouseDialect {}),
        "duckdb" => Box::new(DuckDbDialect {}),
        "mssql" => Box::new(MsSqlDialect {}),
        "mysql" => Box::new(MySqlDialect {}),
        "postgres" | "glaredb" | "redshift" => Box::new(PostgreSqlDialect {}),
        "sqlite" => Box::new(SQLiteDialect {}),
        "snowflake" => Box::new(SnowflakeDialect {}),
        _ => Box::new(GenericDialect {}),
    }
}

pub(crate) fn cmd_sqlparse(req: &Value) -> Value {
    let d = sp_dialect(s(req, "dialect"));
    match sqlparser::parser::Parser::parse_sql(&*d, s(req, "sql")) {
        Ok(stmts) => {
            let ast = if req.get("ast").and_then(|v| v.as_bool()).unwrap_or(false) {
                serde_json::to_value(&stmts).unwrap_or(Value::Null)
            } else {
                Value::Null
            };
            let shown: Vec<String> = stmts.iter().map(|s| s.to_string()).collect();
            json!({"ok": stmts.len(), "ast": ast, "display": shown})
        }
        Err(e) => json!({"parse_err": e.to_string()}),
    }
}

pub(crate) fn cmd_sqltokens(req: &Value) -> Value {
    let d = sp_dialect(s(req, "dialect"));
    let mut t = sqlparser::tokenizer::Tokenizer::new(&*d, s(req, "sql"));
    match t.tokenize() {
        Ok(toks) => {
            let v: Vec<Value> = toks
                .iter()
                .filter(|t| !matches!(t, sqlparser::tokenizer::Token::Whitespace(sqlparser::tokenizer::Whitespace::Space)))
                .map(|t| json!({"k": format!("{:?}", t).split(['(', ' ', '{']).next().unwrap_or(""), "t": t.to_string()}))
                .collect();
            json!({ "ok": v })
        }
        Err(e) => json!({"tok_err": e.to_string()}),
    }
}

// The quoting code prqlc delegates to: sqlparser's Display of a quoted string / identifier.
fn cmd_escape(req: &Value) -> Value {
    let text = s(req, "s").to_string();
    let lit = sqlparser::ast::Value::SingleQuotedString(text.clone()).to_string();
    let q = s(req, "quote").chars().next().unwrap_or('"');
    let id = sqlparser::ast::Ident::with_quote(q, text).to_string();
    json!({"string": lit, "ident": id})
}

fn cmd_names(_req: &Value) -> Value {
    use prqlc::sql::Dialect;
    let dialects: Vec<String> = prqlc::Target::names();
    let all: Vec<Value> = Dialect::names()
        .into_iter()
        .map(|n| json!(n))
        .collect();
    json!({"target_names": dialects, "dialect_names": all})
}

fn cmd_target(req: &Value) -> Value {
    match prqlc::Target::from_str(s(req, "s")) {
        Ok(prqlc::Target::Sql(d)) => json!({"ok": d.map(|d| d.to_string())}),
        Err(e) => json!({"err": format!("{:?}", e.reason)}),
    }
}

// parse an arbitrary PRQL file (std.prql, std.sql.prql) with prqlc's own parser -> PR JSON
fn cmd_parsefile(req: &Value) -> Value {
    let text = match std::fs::read_to_string(s(req, "path")) {
        Ok(t) => t,
        Err(e) => return json!({"io_err": e.to_string()}),
    };
    match prqlc::prql_to_pl(&text) {
        Ok(pl) => json!({"ok": serde_json::to_value(&pl).unwrap_or(Value::Null)}),
        Err(e) => errs(e),
    }
}

// Rust char classification for a range of code points (lexer model hypotheses)
fn cmd_charclass(req: &Value) -> Value {
    let lo = req.get("lo").and_then(|v| v.as_u64()).unwrap_or(0) as u32;
    let hi = req.get("hi").and_then(|v| v.as_u64()).unwrap_or(0) as u32;
    let mut alpha = vec![];
    let mut alnum = vec![];
    let mut ws = vec![];
    for c in lo..hi {
        if let Some(ch) = char::from_u32(c) {
            if ch.is_alphabetic() {
                alpha.push(c);
            }
            if ch.is_alphanumeric() {
                alnum.push(c);
            }
            if ch.is_whitespace() {
                ws.push(c);
            }
        }
    }
    json!({"alphabetic": alpha, "alphanumeric": alnum, "whitespace": ws})
}

// same request compiled from n threads at once; returns all outputs
fn cmd_par(req: &Value) -> Value {
    let n = req.get("n").and_then(|v| v.as_u64()).unwrap_or(8) as usize;
    let reqs: Vec<Value> = match req.get("reqs") {
        Some(Value::Array(a)) => a.clone(),
        _ => vec![req.clone()],
    };
    let mut handles = vec![];
    for i in 0..n {
        let r = reqs[i % reqs.len()].clone();
        handles.push(std::thread::spawn(move || guarded(|| cmd_compile(&r))));
    }
    let outs: Vec<Value> = handles
        .into_iter()
        .map(|h| h.join().unwrap_or(json!({"panic": {"msg": "thread join failed", "loc": ""}})))
        .collect();
    json!({ "outs": outs })
}

// every public entry point on one input, in a thread with a fixed stack, timed.
fn cmd_probe(req: &Value) -> Value {
    let req = req.clone();
    let stack = req.get("stack_mb").and_then(|v| v.as_u64()).unwrap_or(64) as usize * 1024 * 1024;
    let h = std::thread::Builder::new().stack_size(stack).spawn(move || {
        let mut out = serde_json::Map::new();
        let entry = s(&req, "entry").to_string();
        let t0 = std::time::Instant::now();
        let v = guarded(|| match entry.as_str() {
            "tokens" => cmd_lex(&req),
            "pl" => match prqlc::prql_to_pl(s(&req, "src")) {
                Ok(_) => json!({"ok": true}),
                Err(e) => errs(e),
            },
            "fmt" => cmd_fmt(&req),
            "rq" => match prqlc::prql_to_pl(s(&req, "src")).and_then(prqlc::pl_to_rq) {
                Ok(_) => json!({"ok": true}),
                Err(e) => errs(e),
            },
            "compile" => cmd_compile(&req),
            "json_pl" => match prqlc::json::to_pl(s(&req, "src")) {
                Ok(pl) => match prqlc::pl_to_rq(pl.clone()) {
                    Ok(_) => {
                        let _ = prqlc::pl_to_prql(&pl);
                        json!({"ok": true})
                    }
                    Err(e) => {
                        let _ = prqlc::pl_to_prql(&pl);
                        errs(e)
                    }
                },
                Err(e) => errs(e),
            },
            "json_rq" => match prqlc::json::to_rq(s(&req, "src")) {
                Ok(rq) => match options(&req) {
                    Ok(o) => match prqlc::rq_to_sql(rq, &o) {
                        Ok(sql) => json!({ "ok": sql }),
                        Err(e) => errs(e),
                    },
                    Err(v) => v,
                },
                Err(e) => errs(e),
            },
            _ => json!({"bad_entry": entry}),
        });
        out.insert("r".into(), v);
        out.insert("ms".into(), json!(t0.elapsed().as_millis() as u64));
        Value::Object(out)
    });
    match h {
        Ok(h) => h.join().unwrap_or(json!({"panic": {"msg": "probe thread died", "loc": ""}})),
        Err(e) => json!({"spawn_err": e.to_string()}),
    }
}

// ariadne's offset -> (line, col) as prqlc uses it, for C13
fn cmd_linecol(req: &Value) -> Value {
    let src = s(req, "src");
    let source = ariadne::Source::from(src);
    let off = req.get("offset").and_then(|v| v.as_u64()).unwrap_or(0) as usize;
    match source.get_offset_line(off) {
        Some((_, line, col)) => json!({"ok": [line, col]}),
        None => json!({"ok": null}),
    }
}

static LOGGER: prqlc::debug::MessageLogger = prqlc::debug::MessageLogger;

fn main() {
    install_hook();
    // route the compiler's `log` records into its own debug log (only active between log_start/log_finish)
    // (initialise the version OnceLock first: log_start() calls compiler_version() while holding the
    // debug-log lock, and its fallback path logs -> self-deadlock once a logger is installed)
    let _ = prqlc::compiler_version();
    let _ = log::set_logger(&LOGGER);
    log::set_max_level(log::LevelFilter::Debug);
    let cmd = std::env::args().nth(1).unwrap_or_default();
    let stdin = std::io::stdin();
    let stdout = std::io::stdout();
    let mut out = std::io::BufWriter::new(stdout.lock());
    for line in stdin.lock().lines() {
        let line = match line {
            Ok(l) => l,
            Err(_) => break,
        };
        if line.trim().is_empty() {
            continue;
        }
        let req: Value = match serde_json::from_str(&line) {
            Ok(v) => v,
            Err(e) => {
                let _ = writeln!(out, "{}", json!({"bad_request": e.to_string()}));
                continue;
            }
        };
        let c = req.get("cmd").and_then(|v| v.as_str()).unwrap_or(&cmd).to_string();
        let ans = guarded(|| match c.as_str() {
            "compile" => cmd_compile(&req),
            "lex" => cmd_lex(&req),
            "pl" => cmd_pl(&req),
            "fmt" => cmd_fmt(&req),
            "rq" => cmd_rq(&req),
            "staged" => cmd_staged(&req),
            "jsonrt" => cmd_jsonrt(&req),
            "log" => cmd_log(&req),
            "exec" => cmd_exec(&req),
            "sqlparse" => cmd_sqlparse(&req),
            "sqltokens" => cmd_sqltokens(&req),
            "escape" => cmd_escape(&req),
            "names" => cmd_names(&req),
            "target" => cmd_target(&req),
            "parsefile" => cmd_parsefile(&req),
            "charclass" => cmd_charclass(&req),
            "par" => cmd_par(&req),
            "probe" => cmd_probe(&req),
            "linecol" => cmd_linecol(&req),
            _ => {
                let mut r = None;
                if r.is_none() { r = c01::dispatch(c.as_str(), &req); }
                if r.is_none() { r = c02::dispatch(c.as_str(), &req); }
                if r.is_none() { r = c03::dispatch(c.as_str(), &req); }
                if r.is_none() { r = c04::dispatch(c.as_str(), &req); }
                if r.is_none() { r = c05::dispatch(c.as_str(), &req); }
                if r.is_none() { r = c06::dispatch(c.as_str(), &req); }
                if r.is_none() { r = c07::dispatch(c.as_str(), &req); }
                if r.is_none() { r = c08::dispatch(c.as_str(), &req); }
                if r.is_none() { r = c09::dispatch(c.as_str(), &req); }
                if r.is_none() { r = c10::dispatch(c.as_str(), &req); }
                if r.is_none() { r = c11::dispatch(c.as_str(), &req); }
                if r.is_none() { r = c12::dispatch(c.as_str(), &req); }
                if r.is_none() { r = c13::dispatch(c.as_str(), &req); }
                if r.is_none() { r = c14::dispatch(c.as_str(), &req); }
                if r.is_none() { r = c15::dispatch(c.as_str(), &req); }
                if r.is_none() { r = c16::dispatch(c.as_str(), &req); }
                if r.is_none() { r = c17::dispatch(c.as_str(), &req); }
                if r.is_none() { r = c18::dispatch(c.as_str(), &req); }
                r.unwrap_or_else(|| json!({"bad_cmd": c}))
            }
        });
        let _ = writeln!(out, "{}", ans);
        let _ = out.flush();
    }
}
